"""E1: explicit-state breadth-first search over call histories of the real implementation.

A state is identified by the history that reaches it (live objects are rebuilt by replaying the history).
`run_history(hist)` must execute the history on fresh real objects and return a dict
    {"canon": hashable canonical state (observable snapshot + hidden-state fingerprint),
     "fails": [(sig, detail), ...]   # violations of the invariant / reference model after the LAST step
     "enabled": [op, ...]            # operations enabled in the reached state (per the reference model)
     "outcome": small hashable observation (for the distinct-outcome count)}
Every prefix of a history is itself a history that was checked earlier, so only the last step is judged.
All histories of length <= `forced_depth` are executed even when the state hash says "seen"; beyond that a state is
expanded once.
"""
from __future__ import annotations

from .core import pmap, run_forked, short_hash


def _run_chunk(args):
    run_history, hists, isolate = args
    out = []
    for h in hists:
        # isolate: every history starts from a pristine copy of the parent process (module-level caches, class
        # attributes and counters cannot leak from one history into the next)
        r = run_forked(run_history, h) if isolate else run_history(h)
        out.append((h, short_hash(r["canon"]), r["fails"], r["enabled"], short_hash(r.get("outcome", r["canon"]))))
    return out


def bfs(ctx, name, run_history, max_depth, forced_depth, kind, payload_of=lambda h: {"history": list(h)},
        chunk=200, log_every=True, isolate=False, max_states=3_000_000):
    r0 = run_history(())
    for sig, detail in r0["fails"]:
        ctx.fail(kind, payload_of(()), sig, detail, weight=0)
    if r0["fails"]:
        ctx.count(states=1, transitions=1, traces=1)
        ctx.part(name, states=1, transitions=1, depth_completed=0, forced_depth=forced_depth, frontier_left=0)
        return 1, 1
    seen = {short_hash(r0["canon"])}
    frontier = [((), r0["enabled"])]
    states, transitions = 1, 0
    depth_done = 0
    sample_hist = None
    for depth in range(1, max_depth + 1):
        cands = [h + (op,) for h, en in frontier for op in en]
        if not cands:
            break
        chunks = [cands[i:i + chunk] for i in range(0, len(cands), chunk)]
        nxt = []
        n_fail_level = 0
        for res in pmap(_run_chunk, [(run_history, c, isolate) for c in chunks], ctx.workers, ordered=True):
            for h, canon, fails, enabled, outcome in res:
                transitions += 1
                ctx.outcomes.add(outcome)
                for sig, detail in fails:
                    n_fail_level += 1
                    ctx.fail(kind, payload_of(h), sig, detail, weight=len(h))
                new = canon not in seen
                if new:
                    seen.add(canon)
                    states += 1
                if (new or depth < forced_depth) and not fails:
                    nxt.append((h, enabled))
                    sample_hist = h
        frontier = nxt
        depth_done = depth
        if n_fail_level:
            # shortest counterexamples found: deeper levels would only repeat them (and a broken implementation
            # may have an unbounded state space)
            ctx.log(f"{name}: {n_fail_level} failing histories at depth {depth}: not going deeper")
            break
        if states > max_states:
            ctx.exhaustive = False
            ctx.log(f"{name}: state cap {max_states} reached at depth {depth}")
            break
        if log_every:
            ctx.log(f"{name}: depth {depth}: histories={len(cands)} kept={len(nxt)} states={states}")
    ctx.count(states=states, transitions=transitions, traces=transitions)
    ctx.part(name, states=states, transitions=transitions, depth_completed=depth_done, forced_depth=forced_depth,
             frontier_left=len(frontier))
    if sample_hist is not None:
        ctx.sample({"part": name, "history": [list(o) if isinstance(o, tuple) else o for o in sample_hist]})
    return states, transitions
