"""Runner core: context, violations, known findings, replay files, evidence, parallel map."""
from __future__ import annotations

import argparse
import hashlib
import importlib
import json
import multiprocessing as mp
import os
import pickle
import random
import subprocess
import sys
import time
import traceback

LEVEL = "model_checking"
MAX_REPORTED = 6  # distinct violation signatures written out per run


def jdump(x):
    return json.dumps(x, sort_keys=True, default=repr)


def short_hash(x) -> str:
    return hashlib.sha1(jdump(x).encode()).hexdigest()[:12]


class Ctx:
    def __init__(self, prop_id, tier, seed, here, repo):
        self.prop_id = prop_id
        self.tier = tier
        self.seed = seed
        self.here = here
        self.repo = repo
        self.workers = int(os.environ.get("VERIF_WORKERS", "16"))
        self.rng = random.Random(seed)
        self.t0 = time.time()
        # coverage accounting
        self.states = 0
        self.transitions = 0
        self.traces = 0
        self.outcomes = set()
        self.samples = []
        self.extra = {}
        self.failures = []  # dicts: kind, payload, sig, detail, weight
        self.exhaustive = True
        self.parts = {}

    @property
    def thorough(self):
        return self.tier == "thorough"

    # ---- accounting ---------------------------------------------------
    def count(self, states=0, transitions=0, traces=0):
        self.states += states
        self.transitions += transitions
        self.traces += traces

    def part(self, name, **kw):
        d = self.parts.setdefault(name, {})
        for k, v in kw.items():
            if isinstance(v, (int, float)) and isinstance(d.get(k), (int, float)):
                d[k] += v
            else:
                d[k] = v

    def outcome(self, o):
        self.outcomes.add(o if isinstance(o, str) else short_hash(o))

    def sample(self, s, limit=4):
        if len(self.samples) < limit:
            self.samples.append(s)

    def fail(self, kind, payload, sig, detail, weight=0):
        self.failures.append(
            {"kind": kind, "payload": payload, "sig": sig, "detail": detail, "weight": weight}
        )

    def absorb(self, res, task=None):
        """Merge a worker result dict: {n, outcomes, fails:[(kind,payload,sig,detail,weight)], ...}."""
        for f in res.get("fails", ()):
            self.fail(*f)
            if task is not None:
                self.failures[-1]["task"] = task
        for o in res.get("outcomes", ()):
            self.outcomes.add(o)
        self.states += res.get("states", 0)
        self.transitions += res.get("transitions", 0)
        self.traces += res.get("traces", 0)

    def log(self, *a):
        print(f"[{self.prop_id} {time.time()-self.t0:6.1f}s]", *a, flush=True)


# ---------------------------------------------------------------------------
# parallel map (fork). Workers inherit the imported library; results are pickled back.
def _call(args):
    fn, x = args
    try:
        return ("ok", fn(x))
    except BaseException:  # noqa: BLE001
        return ("err", traceback.format_exc())


def pmap(fn, items, workers=16, chunksize=1, ordered=False):
    items = list(items)
    if not items:
        return
    if workers <= 1 or len(items) == 1:
        for x in items:
            yield fn(x)
        return
    ctx = mp.get_context("fork")
    with ctx.Pool(min(workers, len(items))) as pool:
        it = (pool.imap if ordered else pool.imap_unordered)(_call, [(fn, x) for x in items], chunksize)
        for st, r in it:
            if st == "err":
                pool.terminate()
                raise HarnessError("worker crashed:\n" + r)
            yield r


class _Isolated:
    """Picklable wrapper: run fn(x) in a forked child of the (pristine) pool worker and return (x, result)."""

    def __init__(self, fn):
        self.fn = fn

    def __call__(self, x):
        return x, run_forked(self.fn, x)


def run_tasks(ctx, fn, tasks, isolate=True):
    """pmap + absorb. Every task runs in its own forked process, so its result is a function of its argument alone;
    failures remember their task, which becomes the replay unit when a single case does not reproduce on its own
    (a defect that needs the calls that precede it in the task)."""
    tasks = list(tasks)
    if isolate:
        for x, r in pmap(_Isolated(fn), tasks, ctx.workers):
            ctx.absorb(r, task=(fn.__module__, fn.__name__, x))
    else:
        for r in pmap(fn, tasks, ctx.workers):
            ctx.absorb(r)


def run_forked(fn, arg, timeout=600):
    """Run fn(arg) in a forked child (pristine copy of the parent state); return its result."""
    r, w = os.pipe()
    pid = os.fork()
    if pid == 0:
        code = 0
        try:
            os.close(r)
            try:
                out = ("ok", fn(arg))
            except BaseException:  # noqa: BLE001
                out = ("err", traceback.format_exc())
            with os.fdopen(w, "wb") as f:
                pickle.dump(out, f)
        except BaseException:  # noqa: BLE001
            code = 3
        finally:
            sys.stdout.flush()
            sys.stderr.flush()
            os._exit(code)
    os.close(w)
    with os.fdopen(r, "rb") as f:
        data = f.read()
    os.waitpid(pid, 0)
    if not data:
        raise HarnessError("forked child died without a result")
    st, res = pickle.loads(data)
    if st == "err":
        raise HarnessError("forked child crashed:\n" + res)
    return res


class HarnessError(RuntimeError):
    pass


# ---------------------------------------------------------------------------
# known findings
def load_findings(here):
    known, fixed = [], []
    path = os.path.join(here, "KNOWN_FINDINGS.txt")
    if os.path.exists(path):
        for line in open(path):
            line = line.strip()
            if line.startswith("known:"):
                d = dict(tok.split("=", 1) for tok in line[6:].split() if "=" in tok and tok.split("=")[0] in ("property", "id", "sig"))
                d["text"] = line[6:].strip()
                known.append(d)
            elif line.startswith("fixed:"):
                fixed.append(line)
    return known, fixed


# ---------------------------------------------------------------------------
def load_module(prop_id):
    import pkgutil

    import props

    for m in pkgutil.iter_modules(props.__path__):
        if m.name.lower().startswith(prop_id.lower()):
            return importlib.import_module("props." + m.name)
    raise HarnessError(f"no module for property {prop_id}")


def exec_case_subprocess(here, prop_id, path, repo):
    env = dict(os.environ)
    env["VERIF_REPO"] = repo
    env.pop("VERIF_REEXEC", None)
    p = subprocess.run(
        [os.path.join(here, "check"), prop_id, "--replay", path, "--json"],
        capture_output=True, text=True, env=env, timeout=1800,
    )
    for line in p.stdout.splitlines():
        if line.startswith("REPLAY-RESULT "):
            return json.loads(line[len("REPLAY-RESULT "):])
    raise HarnessError(f"replay of {path} gave no result:\n{p.stdout[-2000:]}\n{p.stderr[-2000:]}")


def main(argv, here, repo):
    ap = argparse.ArgumentParser()
    ap.add_argument("prop")
    ap.add_argument("--tier", default=os.environ.get("VERIF_TIER", "quick"), choices=["quick", "thorough"])
    ap.add_argument("--replay")
    ap.add_argument("--json", action="store_true")
    a = ap.parse_args(argv)
    seed = int(os.environ.get("VERIF_SEED", "0") or 0)
    prop_id = a.prop.upper()
    mod = load_module(prop_id)
    ctx = Ctx(prop_id, a.tier, seed, here, repo)

    if a.replay:
        data = json.load(open(a.replay))
        if data["kind"] == "__task__":
            tmod = importlib.import_module(data["payload"]["module"])
            res = getattr(tmod, data["payload"]["fn"])(data["payload"]["arg"])
            fails = [(f[2], f[3]) for f in res.get("fails", ())]
        else:
            fails = mod.exec_case(data["kind"], data["payload"])
        sigs = sorted({f[0] for f in fails})
        if a.json:
            print("REPLAY-RESULT " + jdump({"sigs": sigs}))
        else:
            for sig, detail in fails:
                print(f"FAIL sig={sig}\n  {detail}")
            print("replay:", "VIOLATES" if fails else "holds", f"(recorded sig: {data.get('sig')})")
        return 1 if fails else 0

    try:
        mod.run(ctx)
    except HarnessError as e:
        print("HARNESS ERROR:", e, file=sys.stderr)
        return 2
    except Exception:  # noqa: BLE001
        print("HARNESS ERROR: unexpected exception in the check itself:\n" + traceback.format_exc(), file=sys.stderr)
        return 2

    known, _fixed = load_findings(here)
    known = [k for k in known if k.get("property") == prop_id]

    # group failures by signature; report the lightest (fewest deviations / smallest) of each
    by_sig = {}
    for f in sorted(ctx.failures, key=lambda f: (f["weight"], len(jdump(f["payload"])))):
        by_sig.setdefault(f["sig"], f)
    n_viol = 0
    unrepro = 0
    matched = []
    rdir = os.path.join(os.environ.get("VERIF_REPLAY_DIR") or os.path.join(here, "replays"), prop_id)
    considered = 0
    for sig, f in by_sig.items():
        kf = [k for k in known if k.get("sig") == sig]
        if not kf:
            considered += 1
            if considered > MAX_REPORTED + 2:
                continue  # further signatures are not confirmed/written out (the lightest come first)
        os.makedirs(rdir, exist_ok=True)
        path = os.path.join(rdir, short_hash([f["kind"], f["payload"]]) + ".json")
        with open(path, "w") as fh:
            json.dump({"property": prop_id, "kind": f["kind"], "payload": f["payload"], "sig": sig,
                       "detail": f["detail"]}, fh, indent=1, default=repr)
        # determinism: the scenario must fail identically twice, each in a fresh process
        r1 = exec_case_subprocess(here, prop_id, path, repo)
        r2 = exec_case_subprocess(here, prop_id, path, repo)
        if (r1 != r2 or sig not in r1["sigs"]) and f.get("task"):
            # the case alone does not fail: replay the whole task it belonged to (the calls before it matter)
            mod_name, fn_name, arg = f["task"]
            try:
                blob = json.dumps({"property": prop_id, "kind": "__task__", "payload": {"module": mod_name, "fn": fn_name, "arg": arg},
                                   "sig": sig, "detail": f["detail"], "note": "fails only after the cases that precede it in this task"})
            except TypeError:
                blob = None
            if blob is not None:
                os.remove(path)
                path = os.path.join(rdir, short_hash([mod_name, fn_name, arg]) + ".task.json")
                with open(path, "w") as fh:
                    fh.write(blob)
                r1 = exec_case_subprocess(here, prop_id, path, repo)
                r2 = exec_case_subprocess(here, prop_id, path, repo)
        if r1 != r2 or sig not in r1["sigs"]:
            # never report what cannot be reproduced from a fresh process
            print(f"UNREPRODUCIBLE: replay of {path} diverged: recorded {sig}, replays {r1} / {r2}", file=sys.stderr)
            unrepro += 1
            continue
        if kf:
            matched.append(sig)
            os.remove(path)
            txt = " ".join(t for t in kf[0]["text"].split() if not t.startswith("property="))
            print(f"KNOWN-FINDING: property={prop_id} {txt}")
            continue
        n_viol += 1
        if n_viol <= MAX_REPORTED:
            print(f"VIOLATION property={prop_id} replay={path}")
            print(f"  sig={sig}\n  {str(f['detail'])[:1500]}")
        else:
            os.remove(path)
    write_evidence(ctx, n_viol, matched, len(ctx.failures))
    ctx.log(f"done: states={ctx.states} transitions={ctx.transitions} traces={ctx.traces} "
            f"outcomes={len(ctx.outcomes)} failures={len(ctx.failures)} distinct_sigs={len(by_sig)} violations={n_viol}")
    if n_viol:
        return 1
    if unrepro:
        print("HARNESS ERROR: failures were observed that do not reproduce in a fresh process", file=sys.stderr)
        return 2
    return 0


def write_evidence(ctx, n_viol, matched, n_fail):
    cov = {
        "states": max(ctx.states, 0),
        "transitions": max(ctx.transitions, 0),
        "traces_validated_against_impl": ctx.traces,
        "samples": ctx.samples or ["(none)"],
        "distinct_outcomes": len(ctx.outcomes),
        "exhaustive": bool(ctx.exhaustive),
        "parts": ctx.parts,
        "failing_scenarios": n_fail,
        "known_findings_matched": matched,
    }
    cov.update(ctx.extra)
    ev = {
        "property_id": ctx.prop_id,
        "tier": ctx.tier,
        "seed": ctx.seed,
        "level": LEVEL,
        "coverage": cov,
        "assumptions": ctx.extra.get("assumptions_list", []) + [
            "particle 1.0.1 data tables are the trusted base for names, IDs, widths, spin types",
            "PYTHONHASHSEED=0 for the checking process (C20 enumerates seeds itself)",
            "Lark 1.3.1 and the grammars under src/decaylanguage/data are part of the system under test",
        ],
        "wall_s": round(time.time() - ctx.t0, 2),
        "violations": n_viol,
    }
    cov.pop("assumptions_list", None)
    edir = os.environ.get("VERIF_EVIDENCE_DIR") or os.path.join(ctx.here, "evidence")
    os.makedirs(edir, exist_ok=True)
    with open(os.path.join(edir, ctx.prop_id + ".json"), "w") as f:
        json.dump(ev, f, indent=1, default=repr)
