"""E2: deviation-bounded exhaustive scenario explorer (sequential analogue of iterative context bounding).

A generator is a function gen(c) that builds one scenario and asks c.choose(name, domain) at every choice
point; domain[0] is the default (simplest) answer.  explore() walks the choice tree: every choice vector with at
most `bound` non-default answers is produced exactly once.  Choice points declared free=True are fully crossed
and do not count as deviations.  Nothing is sampled.
"""
from __future__ import annotations

from .core import HarnessError


class Skip(Exception):
    """Raised by a generator for a combination outside the quantified language (children are still explored)."""


class Chooser:
    __slots__ = ("prefix", "choices", "points")

    def __init__(self, prefix=()):
        self.prefix = prefix
        self.choices = []
        self.points = []  # (name, len(domain), free)

    def choose(self, name, domain, free=False):
        i = len(self.choices)
        if i < len(self.prefix):
            c = self.prefix[i]
            if c >= len(domain):
                raise HarnessError(f"replay divergence at point {i} ({name}): choice {c} not in domain of size {len(domain)}")
        else:
            c = 0
        self.choices.append(c)
        self.points.append((name, len(domain), free))
        return domain[c]

    def flag(self, name, free=False):
        return self.choose(name, (False, True), free)

    @property
    def deviations(self):
        return sum(1 for c, p in zip(self.choices, self.points) if c and not p[2])


def explore(gen, bound, stats=None):
    """Yield (choices, n_deviations, scenario) for every choice vector within the bound."""
    stack = [()]
    nodes = 0
    trans = 0
    dim_max = {}
    while stack:
        prefix = stack.pop()
        c = Chooser(prefix)
        try:
            sc = gen(c)
        except Skip:
            sc = None
        if len(c.choices) < len(prefix):
            raise HarnessError("replay divergence: generator asked fewer choices than the prefix holds")
        nodes += 1
        trans += len(c.choices)
        ndev = c.deviations
        for (name, n, _f), ch in zip(c.points, c.choices):
            if ch > dim_max.get(name, -1):
                dim_max[name] = ch
        if sc is not None:
            yield tuple(c.choices), ndev, sc
        devs_prefix = sum(1 for ch, p in zip(c.choices[: len(prefix)], c.points) if ch and not p[2])
        for i in range(len(c.points) - 1, len(prefix) - 1, -1):
            name, n, free = c.points[i]
            if not free and devs_prefix + 1 > bound:
                continue
            base = tuple(c.choices[:i])
            for alt in range(n - 1, 0, -1):
                stack.append(base + (alt,))
    if stats is not None:
        stats["nodes"] = stats.get("nodes", 0) + nodes
        stats["choices"] = stats.get("choices", 0) + trans
        dm = stats.setdefault("per_dimension_max", {})
        for k, v in dim_max.items():
            dm[k] = max(dm.get(k, 0), v)


def replay(gen, choices):
    c = Chooser(tuple(choices))
    return gen(c)
