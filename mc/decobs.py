"""Implementation-facing observers for DecFileParser: canonical snapshots of what the public queries answer."""
from __future__ import annotations

import contextlib
import io
import warnings

from decaylanguage import DecFileParser
from decaylanguage.dec.dec import DecayNotFound


def parse_text(text, include_cc=True, models=None):
    p = DecFileParser.from_string(text)
    if models:
        p.load_additional_decay_models(*models)
    with warnings.catch_warnings():
        warnings.simplefilter("ignore")
        p.parse(include_ccdecays=include_cc)
    return p


def parse_files(paths, include_cc=True):
    p = DecFileParser(*paths)
    with warnings.catch_warnings():
        warnings.simplefilter("ignore")
        p.parse(include_ccdecays=include_cc)
    return p


def canon_params(mp):
    """'' / [] / None all mean: no parameters (representation left open by the property)."""
    if mp is None or mp == "" or mp == []:
        return []
    return list(mp)


def table_of(p, mother):
    """[(bf, fs, photos, model, params)] of one mother, through the documented accessors."""
    out = []
    for dm in p._find_decay_modes(mother):
        d = p._decay_mode_details(dm, display_photos_keyword=True)
        model = d["model"]
        ph = False
        if model.startswith("PHOTOS "):
            ph, model = True, model[len("PHOTOS "):]
        out.append((d["bf"], list(d["fs"]), ph, model, canon_params(d["model_params"])))
    return out


def raw_tables(p):
    """The tables exactly as the accessor reports them (no canonical form for 'no parameters'): for comparing two
    texts read by the SAME implementation, where also the representation must agree."""
    return {m: [p._decay_mode_details(dm, display_photos_keyword=True) for dm in p._find_decay_modes(m)]
            for m in dict.fromkeys(p.list_decay_mother_names())}


def tables(p):
    return {m: table_of(p, m) for m in dict.fromkeys(p.list_decay_mother_names())}


def chain_table(p, mother, all_names):
    """The same table through build_decay_chains with every name stable (public API route; no PHOTOS there)."""
    ch = p.build_decay_chains(mother, stable_particles=list(all_names))
    assert list(ch) == [mother]
    return [(d["bf"], list(d["fs"]), d["model"], canon_params(d["model_params"])) for d in ch[mother]]


def printed(p, mother, **kw):
    buf = io.StringIO()
    with contextlib.redirect_stdout(buf):
        p.print_decay_modes(mother, **kw)
    return buf.getvalue()


def _try(f):
    try:
        return ("ok", f())
    except Exception as e:  # noqa: BLE001
        return ("exc", type(e).__name__)


def globals_of(p):
    """All global-declaration queries (C07)."""
    return {
        "aliases": _try(p.dict_aliases),
        "charge_conjugates": _try(p.dict_charge_conjugates),
        "definitions": _try(p.dict_definitions),
        "decays2copy": _try(p.dict_decays2copy),
        "cdecays": _try(p.list_charge_conjugate_decays),
        "model_aliases": _try(p.dict_model_aliases),
        "particles": _try(p.get_particle_property_definitions),
        "pythia": _try(p.dict_pythia_definitions),
        "jetset": _try(p.dict_jetset_definitions),
        "lineshape": _try(p.dict_lineshape_settings),
        "lineshapePW": _try(lambda: [(list(a), b) for a, b in p.list_lineshapePW_definitions()]),
        "photos": _try(lambda: "yes" if int(p.global_photos_flag()) == 1 else "no"),
    }


def typed(x):
    """Make the type of numbers part of the comparison (1 != 1.0 for JetSet ints) inside nested containers."""
    if isinstance(x, bool):
        return ("b", x)
    if isinstance(x, int):
        return ("i", x)
    if isinstance(x, float):
        return ("f", x)
    if isinstance(x, dict):
        return {k: typed(v) for k, v in x.items()}
    if isinstance(x, (list, tuple)):
        return [typed(v) for v in x]
    return x


def full_snapshot(p, expand=True, expand_limit=2000):
    """Canonical snapshot of every public query (C02 differential oracle, C08 history oracle)."""
    snap = {"mothers": list(p.list_decay_mother_names()), "n": p.number_of_decays, "globals": typed(globals_of(p))}
    tabs = {}
    for m in dict.fromkeys(snap["mothers"]):
        tabs[m] = typed(table_of(p, m))
    snap["tables"] = tabs
    snap["list_modes"] = {m: p.list_decay_modes(m) for m in tabs}
    if expand:
        ex = {}
        for m in tabs:
            try:
                ex[m] = p.expand_decay_modes(m)
                if len(ex[m]) > expand_limit:
                    ex[m] = ("len", len(ex[m]))
            except RecursionError:
                ex[m] = "RecursionError"
            except Exception as e:  # noqa: BLE001
                ex[m] = ("exc", type(e).__name__)
        snap["expand"] = ex
    return snap


__all__ = ["DecFileParser", "DecayNotFound"]
