"""Ownership of process-wide state for the AmpGen properties (C17-C20).

* name-lookup memo: `read_ampgen` spends 0.15-0.5 s per particle-name occurrence in
  decaylanguage.utils.particleutils.particle_from_string_name (a pure function of the name and the content of the
  particle table).  The harness wraps the reference held by `amplitudechain` with a memo keyed by
  (name, number of entries in the particle table); results and exceptions are memoised.
* the parent warms the memo for a vocabulary with the default table and with the special-particle file appended,
  restores the default table and only then forks: children start from a pristine library state.
"""
from __future__ import annotations

import os

_MEMO = {}
_REAL = None


def install_memo():
    global _REAL
    from decaylanguage.modeling import amplitudechain
    from particle import Particle

    if _REAL is not None:
        return
    _REAL = amplitudechain.particle_from_string_name

    def cached(name):
        k = (name, len(Particle.all()))
        if k not in _MEMO:
            try:
                _MEMO[k] = (True, _REAL(name))
            except Exception as e:  # noqa: BLE001
                _MEMO[k] = (False, e)
        ok, v = _MEMO[k]
        if ok:
            return v
        raise v

    amplitudechain.particle_from_string_name = cached


def uninstall_memo():
    global _REAL
    from decaylanguage.modeling import amplitudechain

    if _REAL is not None:
        amplitudechain.particle_from_string_name = _REAL
        _REAL = None


def warm(vocabulary):
    from decaylanguage.modeling import amplitudechain
    from particle import Particle

    install_memo()
    f = amplitudechain.particle_from_string_name
    for n in vocabulary:
        try:
            f(n)
        except Exception:  # noqa: BLE001
            pass
    special = os.path.join(os.path.dirname(amplitudechain.__file__), "..", "data", "MintDalitzSpecialParticles.csv")
    Particle.load_table(special, append=True)
    for n in vocabulary:
        try:
            f(n)
        except Exception:  # noqa: BLE001
            pass
    Particle.load_table()  # back to the default table: children do the library's own one-time loading


def library_state():
    """Fingerprint of the process-wide state named in the anchors of C17/C20."""
    from decaylanguage.modeling.amplitudechain import AmplitudeChain
    from decaylanguage.modeling.goofit import GooFitChain, GooFitPyChain
    from particle import Particle

    def ids(s):
        try:
            return sorted(int(p.pdgid) for p in (s or ()))
        except Exception:  # noqa: BLE001  (a fingerprint must never fail the run)
            return repr(s)

    return {
        "all_particles": {c.__name__: ids(getattr(c, "all_particles", None)) for c in (AmplitudeChain, GooFitChain, GooFitPyChain)},
        "final_particles": {c.__name__: ids(getattr(c, "final_particles", None)) for c in (AmplitudeChain, GooFitChain, GooFitPyChain)},
        "cartesian": {c.__name__: bool(getattr(c, "cartesian", False)) for c in (AmplitudeChain, GooFitChain, GooFitPyChain)},
        "pars": {c.__name__: (None if getattr(c, "pars", None) is None else list(c.pars.index)) for c in (GooFitChain, GooFitPyChain)},
        "special_table_loaded": 998100 in Particle.all(),
    }
