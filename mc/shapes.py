"""Complete enumerations of small structures ("all shapes up to size n"), with per-dimension spines."""
from __future__ import annotations

import collections
import itertools


def lines_over(pool, maxlen):
    """All ordered daughter tuples of length 0..maxlen over the pool (repetition allowed)."""
    for n in range(maxlen + 1):
        for ds in itertools.product(pool, repeat=n):
            yield list(ds)


def table_sets(level=1):
    """Acyclic sets of decay tables over the ordered universe M > X > Y > Z (a table only names lower particles and
    the leaves p, q).  Yields {name: [daughter lists]} ; a name that is absent has no Decay block, [] is an empty block.
    level 1 (quick): M over {X,Y,p} with <=3 daughters, 1..2 lines; X absent/empty/1..2 lines over {Y,p}; Y likewise over {p,q}.
    level 2 adds Z below Y and a third line variant."""
    Ml = list(lines_over(["X", "Y", "p"], 3))
    Xl = list(lines_over(["Y", "p"], 2))
    Yl = list(lines_over(["p", "q"] if level == 1 else ["Z", "p"], 1 if level == 1 else 2))
    Xopts = [None, []] + [[l] for l in Xl] + [[Xl[1], Xl[3]], [Xl[4], Xl[2]]]
    Yopts = [None, []] + [[l] for l in Yl] + [[Yl[1], Yl[2]]]
    Zopts = [None] if level == 1 else [None, [], [["p", "q"]], [["q"], []]]
    for ml in Ml:
        for second in (None, ["p", "X"], ["Y", "Y"]) if level > 1 else (None, ["p", "X"]):
            for xo in Xopts:
                for yo in Yopts:
                    for zo in Zopts:
                        t = {"M": [ml] + ([second] if second is not None else [])}
                        if xo is not None:
                            t["X"] = xo
                        if yo is not None:
                            t["Y"] = yo
                        if zo is not None:
                            t["Z"] = zo
                        yield t


def spine_table_sets():
    """One dimension stretched while the others stay small."""
    # 8 lines for the mother
    yield {"M": [["X", "p"], ["p"], ["Y"], [], ["X", "X"], ["q", "Y", "X"], ["p", "q"], ["X"]], "X": [["Y", "p"], ["q"]], "Y": [["p", "q"]]}
    # 7 daughters in one line, several decaying ones repeated
    yield {"M": [["X", "Y", "p", "X", "q", "Y", "X"]], "X": [["Y"], ["p", "p"]], "Y": [["q"], []]}
    # depth 4
    yield {"M": [["X", "p"]], "X": [["Y", "q"]], "Y": [["Z", "p"], ["q"]], "Z": [["W", "W"]], "W": [["p", "q"], ["q"]]}
    # 5 decaying daughters x 2 modes each
    yield {"M": [["A1", "A2", "A3", "A4", "A5"]], **{f"A{i}": [["p"], ["q", "q"]] for i in range(1, 6)}}
    # four lines per particle
    yield {"M": [["X"], ["X", "Y"], ["p"], ["Y", "Y"]], "X": [["p"], ["q"], ["Y"], ["p", "q"]], "Y": [["p"], ["q"], ["p", "p"], []]}
    # identical decay lines (each is an entry of its own)
    yield {"M": [["X", "p"], ["X", "p"], ["q"], ["X", "p"]], "X": [["p"], ["p"], ["Y"], ["Y"]], "Y": [[], []]}
    # empty blocks everywhere below
    yield {"M": [["X", "Y", "Z"], ["X"]], "X": [], "Y": [], "Z": []}


def subsets(names):
    names = list(names)
    for r in range(len(names) + 1):
        for c in itertools.combinations(names, r):
            yield list(c)


def single_chains(k, maxmult=2, maxd=3, leaves=("a", "b")):
    """Every acyclic single decay chain with k+1 decaying particles P0 (mother) .. Pk: Pi decays to a multiset of at most
    maxd particles over P(i+1..k) and the leaves, multiplicity <= maxmult; all decaying particles reachable from P0.
    Yields {Pi: Counter}."""
    names = [f"P{i}" for i in range(k + 1)]

    def rec(i, decays):
        if i > k:
            reach, stack = set(), ["P0"]
            while stack:
                n = stack.pop()
                if n in reach:
                    continue
                reach.add(n)
                stack += [d for d in decays.get(n, {}) if d in decays]
            if reach == set(decays):
                yield {n: collections.Counter(c) for n, c in decays.items()}
            return
        pool = names[i + 1:] + list(leaves)
        for n in range(1, maxd + 1):
            for combo in itertools.combinations_with_replacement(pool, n):
                c = collections.Counter(combo)
                if max(c.values()) > maxmult:
                    continue
                decays[names[i]] = dict(c)
                yield from rec(i + 1, decays)
                del decays[names[i]]

    yield from rec(0, {})


def binary_trees(leaves):
    """All binary decay-tree shapes (nested 2-lists) whose leaves, left to right, are `leaves` in every order is NOT
    included here: only the bracketings of the given sequence."""
    if len(leaves) == 1:
        yield leaves[0]
        return
    for i in range(1, len(leaves)):
        for left in binary_trees(leaves[:i]):
            for right in binary_trees(leaves[i:]):
                yield [left, right]
