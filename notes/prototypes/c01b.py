import warnings, string, time
warnings.simplefilter("ignore")
from decaylanguage import DecFileParser
from decaylanguage.dec.enums import known_decay_models as KM
letters=string.ascii_letters; digits=string.digits; punct="/-+*_().'~"
alphabet=letters+digits+punct
firstok=letters+"/*_()'~"
labels=[]
for c in alphabet:
    labels += ["Q"+c+"q", "Q"+c]
    if c in firstok: labels.append(c+"q")
for a in punct:
    for b in punct: labels.append("Q"+a+b+"q")
labels=[l for l in dict.fromkeys(labels) if l not in KM and l not in ("PHOTOS",)]
print(len(labels))
bad=[]
t=time.time()
# pack: each label gets own block
txt=[]; 
for i,l in enumerate(labels):
    txt.append(f"Alias {l}a{i} {l}\nChargeConj {l} {l}c\nDefine {l}d{i} 1.5\nCopyDecay {l}y{i} {l}\nCDecay {l}z{i}\nParticle {l}p{i} 1.0 2.0\nLSFLAT {l}\nBlattWeisskopf {l}b 1\nChangeMassMin {l}m 1\nIncludeBirthFactor {l}f yes\nSetLineshapePW {l} {l}1 {l}2 3\nPythiaBothParam {l}:{l}={l}\nModelAlias {l}M{i} SVS {l};\nDecay {l}\n1.0 {l} X {l} SVS {l} 1.0 {l}d{i} {l};\n0.5 {l} {l}M{i};\nEnddecay\n")
p=DecFileParser.from_string("".join(txt)); p.parse()
al=p.dict_aliases(); cc=p.dict_charge_conjugates(); df=p.dict_definitions(); cp=p.dict_decays2copy(); cd=p.list_charge_conjugate_decays(); pp=p.get_particle_property_definitions(); ls=p.dict_lineshape_settings(); pw=p.list_lineshapePW_definitions(); py=p.dict_pythia_definitions(); ma=p.dict_model_aliases()
mothers=p.list_decay_mother_names()
for i,l in enumerate(labels):
    exp_modes=[{'bf':1.0,'fs':[l,'X',l],'model':'SVS','model_params':[l,1.0,1.5,l]},{'bf':0.5,'fs':[l],'model':'SVS','model_params':[l]}]
    try:
        got=[dict(p._decay_mode_details(x)) for x in p._find_decay_modes(l)]
        got2=[dict(p._decay_mode_details(x)) for x in p._find_decay_modes(f"{l}y{i}")]
    except Exception as e: got=repr(e); got2=None
    ok = got==exp_modes and got2==exp_modes and al.get(f"{l}a{i}")==l and cc.get(l)==l+"c" and df.get(f"{l}d{i}")==1.5 and cp.get(f"{l}y{i}")==l and f"{l}z{i}" in cd and pp.get(f"{l}p{i}")=={'mass':1.0,'width':2.0} and ls.get(l)=={'lineshape':'LSFLAT'} and ls.get(l+'b')=={'BlattWeisskopf':1.0} and ([l,l+'1',l+'2'],3) in pw and py['PythiaBothParam'].get(f"{l}:{l}")==l and ma.get(f"{l}M{i}")==['SVS',l]
    if not ok: bad.append((l,got))
print(len(bad), bad[:10], time.time()-t)
