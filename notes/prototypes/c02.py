import warnings, tempfile, os
from decaylanguage import DecFileParser
def snap(p):
    return (p.list_decay_mother_names(), {m:[p._decay_mode_details(x) for x in p._find_decay_modes(m)] for m in p.list_decay_mother_names()}, p.dict_aliases(), p.dict_definitions())
def S(s):
    p = DecFileParser.from_string(s); p.parse(); return snap(p)
def F(*contents, binary=False):
    names=[]
    for c in contents:
        fd,n=tempfile.mkstemp(suffix='.dec'); os.close(fd)
        if isinstance(c,bytes): open(n,'wb').write(c)
        else: open(n,'w',newline='').write(c)
        names.append(n)
    try:
        p=DecFileParser(*names); p.parse(); return snap(p)
    finally:
        for n in names: os.unlink(n)
base = "Alias X B0\nDefine dm 0.5\nDecay A\n0.5 B C PHSP;\n0.5 D E SVS 1.0 dm;\nEnddecay\nEnd\n"
ref = S(base); print(ref)
def t(name, f):
    try:
        r = f(); print(name, "OK" if r==ref else ("DIFF", r))
    except Exception as e: print(name, "EXC", type(e).__name__, str(e)[:150].replace("\n"," "))
t("crlf-str", lambda: S(base.replace("\n","\r\n")))
t("crlf-file", lambda: F(base.replace("\n","\r\n")))
t("bom-file", lambda: F(("﻿"+base).encode('utf8')))
t("bom-file-comment-first", lambda: F(("﻿# hello\n"+base).encode('utf8')))
t("bom-file-End-first?", lambda: F(("﻿End\n").encode('utf8'), base))
t("bom-str", lambda: S("﻿"+base))
t("no-trailing-nl-str", lambda: S(base.rstrip("\n")))
t("no-End-no-nl-str", lambda: S(base.replace("End\n","").rstrip("\n")))
t("no-trailing-nl-file", lambda: F(base.rstrip("\n")))
t("comment after Enddecay", lambda: S(base.replace("Enddecay\n","Enddecay # c\n")))
t("comment after semicolon", lambda: S(base.replace("PHSP;\n","PHSP; # c\n")))
t("comment only after semicolon no nl? ", lambda: S(base.replace("PHSP;\n","PHSP; # c\n# c2\n\n  # c3\n")))
t("comment after Decay A", lambda: S(base.replace("Decay A\n","Decay A # c\n")))
t("comment mid options", lambda: S(base.replace("SVS 1.0 dm;","SVS 1.0 # c\n dm;")))
t("comment before model", lambda: S(base.replace("0.5 B C PHSP;","0.5 B C # c\n PHSP;")))
t("newline before model", lambda: S(base.replace("0.5 B C PHSP;","0.5 B C \n PHSP;")))
t("newline before semicolon noopts", lambda: S(base.replace("0.5 B C PHSP;","0.5 B C PHSP\n;")))
t("newline before semicolon opts", lambda: S(base.replace("SVS 1.0 dm;","SVS 1.0 dm\n;")))
t("commas", lambda: S(base.replace("SVS 1.0 dm;","SVS 1.0, dm;")))
t("commas2", lambda: S(base.replace("SVS 1.0 dm;","SVS ,1.0, dm,;")))
t("semis", lambda: S(base.replace("PHSP;","PHSP;;;").replace("dm;","dm ; ;")))
t("tabs", lambda: S(base.replace(" ","\t ")))
t("indent", lambda: S(base.replace("\n","\n   \t")))
t("leading blank", lambda: S("\n\n  \n"+base))
t("leading space first line", lambda: S("  "+base))
t("leading comment", lambda: S("# c\n"+base))
t("after End comment", lambda: S(base+"# trailing\n\n"))
t("End with spaces", lambda: S(base.replace("End\n","  End  \n")))
t("no End", lambda: S(base.replace("End\n","")))
t("split files", lambda: F("Alias X B0\nDefine dm 0.5\nEnd\n", "Decay A\n0.5 B C PHSP;\n0.5 D E SVS 1.0 dm;\nEnddecay\nEnd\n"))
t("split files noEnd", lambda: F("Alias X B0\nDefine dm 0.5", "Decay A\n0.5 B C PHSP;\n0.5 D E SVS 1.0 dm;\nEnddecay"))
t("split mid block", lambda: F("Alias X B0\nDefine dm 0.5\nDecay A\n0.5 B C PHSP;\n", "0.5 D E SVS 1.0 dm;\nEnddecay\nEnd\n"))
t("split mid options", lambda: F("Alias X B0\nDefine dm 0.5\nDecay A\n0.5 B C PHSP;\n0.5 D E SVS 1.0\n", "dm;\nEnddecay\nEnd\n"))
t("file End indented + comment", lambda: F("Alias X B0\nDefine dm 0.5\n  End # x\n", "Decay A\n0.5 B C PHSP;\n0.5 D E SVS 1.0 dm;\nEnddecay\nEnd\n"))
t("cr only? no", lambda: None)
t("form feed / nbsp", lambda: S(base.replace("0.5 B","0.5 B")))
t("trailing ws on lines", lambda: S(base.replace("\n","  \t\n")))
t("blank lines inside block", lambda: S(base.replace("PHSP;\n","PHSP;\n\n\n")))
t("blank after Decay", lambda: S(base.replace("Decay A\n","Decay A\n\n#c\n\n")))
