import warnings, time, sys, tempfile, os, re
warnings.simplefilter("ignore")
from decaylanguage import DecFileParser
path = sys.argv[1]
base = open(path, encoding='utf8').read()
def snap(p):
    d={}
    for m in p.list_decay_mother_names():
        d.setdefault(m, [ (x['bf'], tuple(x['fs']), x['model'], tuple(x['model_params']) if x['model_params'] else ()) for x in (p._decay_mode_details(t) for t in p._find_decay_modes(m))])
    g=[]
    for q in ['dict_aliases','dict_charge_conjugates','dict_definitions','dict_decays2copy','list_charge_conjugate_decays','dict_pythia_definitions','dict_jetset_definitions','dict_lineshape_settings','list_lineshapePW_definitions','global_photos_flag','dict_model_aliases']:
        try: g.append(repr(getattr(p,q)()))
        except Exception as e: g.append('EXC '+type(e).__name__)
    return (p.list_decay_mother_names(), d, g)
def S(s):
    p=DecFileParser.from_string(s); p.parse(); return snap(p)
def F(*cs):
    ns=[]
    for c in cs:
        fd,n=tempfile.mkstemp(suffix='.dec'); os.close(fd); open(n,'w',newline='',encoding='utf8').write(c); ns.append(n)
    try:
        p=DecFileParser(*ns); p.parse(); return snap(p)
    finally:
        for n in ns: os.unlink(n)
t=time.time(); ref=F(base); print("base(file)", time.time()-t, len(ref[0]))
lines = base.split("\n")
def t_(name, f):
    t=time.time()
    try:
        r=f(); ok = (r==ref)
        print(f"{name:40} {'OK' if ok else 'DIFF'} {time.time()-t:.1f}s")
        if not ok:
            for m in ref[1]:
                if r[1].get(m)!=ref[1][m]: print("   first diff mother", m, r[1].get(m), ref[1][m]); break
            if r[0]!=ref[0]: print("   mothers differ", len(r[0]), len(ref[0]))
            if r[2]!=ref[2]: print("   globals differ")
    except Exception as e: print(f"{name:40} EXC {type(e).__name__} {str(e)[:200]!r} {time.time()-t:.1f}s")
# string-based needs End line removal? from_string keeps End -> grammar handles 1 End at end
t_("string-based", lambda: S(base if base.endswith("\n") else base+"\n"))
t_("E1 comment every line", lambda: F("\n".join(l+" # c; End Enddecay" for l in lines)))
t_("E2 blank between all", lambda: F("\n\n".join(lines)))
t_("E3 comment line between all", lambda: F("\n# Decay X ; \n".join(lines)))
t_("E4 indent all", lambda: F("\n".join(" \t "+l+"  \t" for l in lines)))
t_("E6 CRLF file", lambda: F("\r\n".join(lines)))
t_("E6 CRLF string", lambda: S("\r\n".join(lines)+("\r\n" if not base.endswith("\n") else "")))
def spaces(l):
    if '#' in l: code,c = l.split('#',1); return re.sub(r'[ \t]+','   \t ',code)+'#'+c
    return re.sub(r'[ \t]+','   \t ',l)
t_("E5 widen gaps", lambda: F("\n".join(spaces(l) for l in lines)))
def semis(l):
    if '#' in l: code,c = l.split('#',1); return code.replace(';',' ; ;')+'#'+c
    return l.replace(';',' ; ;')
t_("E9 semicolons", lambda: F("\n".join(semis(l) for l in lines)))
n=len(lines)
t_("E12 split 3 files mid", lambda: F("\n".join(lines[:n//3]), "\n".join(lines[n//3:2*n//3])+"\nEnd\n", "\n".join(lines[2*n//3:])))
t_("E12 split every 500 lines", lambda: F(*["\n".join(lines[i:i+500])+"\n  End # x\n" for i in range(0,n,500)]))
t_("E11 BOM", lambda: F("﻿"+base))
