import warnings, glob, time, os, tempfile
from concurrent.futures import ProcessPoolExecutor
warnings.simplefilter("ignore")
from decaylanguage import DecFileParser
def snap(p):
    d={}
    for m in p.list_decay_mother_names():
        d.setdefault(m,[(x['bf'],tuple(x['fs']),x['model'],tuple(x['model_params']) if x['model_params'] else ()) for x in (p._decay_mode_details(t) for t in p._find_decay_modes(m))])
    g=[]
    for q in ['dict_aliases','dict_charge_conjugates','dict_definitions','dict_decays2copy','list_charge_conjugate_decays','dict_pythia_definitions','dict_jetset_definitions','dict_lineshape_settings','list_lineshapePW_definitions','global_photos_flag','dict_model_aliases','get_particle_property_definitions']:
        try: g.append(repr(getattr(p,q)()))
        except Exception as e: g.append('EXC '+type(e).__name__)
    return (p.list_decay_mother_names(), d, g)
def S(s):
    p=DecFileParser.from_string(s); p.parse(); return snap(p)
def F(*cs):
    ns=[]
    for c in cs:
        fd,n=tempfile.mkstemp(suffix='.dec'); os.close(fd); open(n,'w',newline='',encoding='utf8').write(c); ns.append(n)
    try:
        p=DecFileParser(*ns); p.parse(); return snap(p)
    finally:
        for n in ns: os.unlink(n)
def work(f):
    base=open(f,encoding='utf8').read()
    if not base.endswith("\n"): base+="\n"
    lines=base.split("\n")[:-1]
    ref=F(base); bad=[]; n=0
    def chk(name,i,fn):
        nonlocal n
        n+=1
        try:
            if fn()!=ref: bad.append((f,name,i))
        except Exception as e: bad.append((f,name,i,repr(e)[:80]))
    if S(base)!=ref: bad.append((f,'string'))
    for i in range(len(lines)+1):
        if i<len(lines):
            L=lines
            chk('E1',i,lambda: S("\n".join(L[:i]+[L[i]+"  # c ; End"]+L[i+1:])+"\n"))
            chk('E4',i,lambda: S("\n".join(L[:i]+["\t  "+L[i]+" \t"]+L[i+1:])+"\n"))
            chk('E6',i,lambda: S("\n".join(L[:i]+[L[i]+"\r"]+L[i+1:])+"\n"))
        chk('E2',i,lambda: S("\n".join(lines[:i]+["","  "]+lines[i:])+"\n"))
        chk('E3',i,lambda: S("\n".join(lines[:i]+["# Enddecay ; x"]+lines[i:])+"\n"))
        if 0<i<len(lines): chk('E12',i,lambda: F("\n".join(lines[:i])+"\nEnd\n","\n".join(lines[i:])+"\n"))
    return n,bad
files=[f for f in sorted(glob.glob('/repo/tests/data/**/*.dec',recursive=True)) if 'issue90' not in f and 'custom_decay' not in f]
t=time.time()
with ProcessPoolExecutor(16) as ex: res=list(ex.map(work,files))
print(sum(r[0] for r in res), sum(len(r[1]) for r in res), time.time()-t)
for r in res:
    for b in r[1][:2]: print(b)
