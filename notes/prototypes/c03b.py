import warnings, time
from particle import Particle, PDGID
from particle.converters import EvtGenName2PDGIDBiMap as BM
from decaylanguage import DecFileParser
names=list(BM._to_map.keys())
def ref_cc(n):
    i=BM._to_map[n]
    if -i in BM._from_map: 
        # self conj check by particle table
        return BM._from_map[-i]
    try:
        p=Particle.from_pdgid(i)
        if p.invert()==p: return n
    except Exception: pass
    return f"ChargeConj({n})"
# every non-self-conj name as CDecay subject, with all names as daughters spread
subjects=[n for n in names if ref_cc(n)!=n and not ref_cc(n).startswith("ChargeConj(") and BM._to_map[n]<0]
print(len(names), len(subjects))
t=time.time(); bad=0; nchk=0
CH=60
for k in range(0,len(subjects),CH):
    chunk=subjects[k:k+CH]
    lines=[]; exp={}
    for j,x in enumerate(chunk):
        src=ref_cc(x)
        ds=[names[(k+j*7+i*13)%len(names)] for i in range(5)]
        lines.append(f"Decay {src}\n0.5 {' '.join(ds)} PHOTOS SVS 1.0 w;\n0.25 {ds[0]} {ds[0]} PHSP;\nEnddecay\nCDecay {x}\n")
        exp[x]=[(0.5,[ref_cc(d) for d in ds],'PHOTOS SVS',[1.0,'w']),(0.25,[ref_cc(ds[0])]*2,'PHSP','')]
    with warnings.catch_warnings(record=True) as w:
        warnings.simplefilter("always")
        p=DecFileParser.from_string("".join(lines)); p.parse()
    for x in chunk:
        nchk+=1
        try:
            got=[(d['bf'],d['fs'],d['model'],d['model_params']) for d in (p._decay_mode_details(m) for m in p._find_decay_modes(x))]
        except Exception as e:
            got=repr(e)
        if got!=exp[x]:
            bad+=1
            if bad<8: print("BAD",x,ref_cc(x),got,exp[x], [str(i.message)[:80] for i in w][:2])
print(nchk,bad,time.time()-t)
