import warnings, itertools, time
from concurrent.futures import ProcessPoolExecutor
warnings.simplefilter("ignore")
from decaylanguage import DecFileParser
from particle import Particle
from particle.converters import EvtGenName2PDGIDBiMap as BM
def base_cc(n):
    if n in BM._to_map:
        i=BM._to_map[n]
        if -i in BM._from_map: return BM._from_map[-i]
        try:
            p=Particle.from_pdgid(i)
            if p.invert()==p: return n
        except Exception: pass
    return f"ChargeConj({n})"
def cc(n,table):
    if n in table: return table[n]
    for a,b in table.items():
        if b==n: return a
    return base_cc(n)
DAUGHT=[['K-','pi+','pi+'],['K_S0','MyX','Foo','pi0','MyS','MySbar'],['MyS','MyS','anti-B0','gamma'],[]]
def scen():
    for naming in ('evtgen','alias_fwd','alias_rev','alias_none'):
      for nlines in (1,2,4):
        for extra in (0,2,5):
          for withdecay in (False,True):
            for viacopy in (False,True):
              for perm in itertools.permutations(range(4)) if True else [(0,1,2,3)]:
                  yield naming,nlines,extra,withdecay,viacopy,perm
def build(s):
    naming,nlines,extra,withdecay,viacopy,perm=s
    if naming=='evtgen': S,X='B0','anti-B0'; pre=[]; table={}
    else:
        S,X='MyS','MySbar'; pre=["Alias MyS B0","Alias MySbar anti-B0"]
        table={} if naming=='alias_none' else ({'MySbar':'MyS'} if naming=='alias_fwd' else {'MyS':'MySbar'})
    chargeconj=[f"ChargeConj {a} {b}" for a,b in table.items()]
    lines=[(f"0.{i+1}", DAUGHT[i%4], i%2==1, 'SVS', ['1.0','w']) for i in range(nlines)]
    def block(m,ls): return "\n".join([f"Decay {m}"]+[f"{bf} {' '.join(ds)} {'PHOTOS ' if ph else ''}{mod} {' '.join(ps)};" for bf,ds,ph,mod,ps in ls]+["Enddecay"])
    srcname = 'Orig' if viacopy else S
    groups=[ "\n".join(pre), "\n".join(chargeconj), block(srcname,lines)+("\nCopyDecay %s Orig"%S if viacopy else ""), f"CDecay {X}"]
    xlines=[("0.9",['e+','e-'],False,'PHSP',[])]
    if withdecay: groups[2]+="\n"+block(X,xlines)
    txt="\n".join(groups[i] for i in perm if groups[i])+"\n"+"".join(block(f"U{j}",[("1.0",['a','b'],False,'PHSP',[])])+"\n" for j in range(extra))
    T={srcname:lines}
    if withdecay: T[X]=xlines
    for j in range(extra): T[f"U{j}"]=[("1.0",['a','b'],False,'PHSP',[])]
    if viacopy: T[S]=lines
    Toff=dict(T)
    if not withdecay and cc(X,table)==S:
        T[X]=[(bf,[cc(d,table) for d in ds],ph,mod,ps) for bf,ds,ph,mod,ps in lines]
    return txt,T,Toff
def obs(p):
    return {m:[(d['bf'],d['fs'],d['model'],list(d['model_params']) if d['model_params'] else []) for d in (p._decay_mode_details(x) for x in p._find_decay_modes(m))] for m in dict.fromkeys(p.list_decay_mother_names())}
def norm(T): return {m:[(float(bf),ds,('PHOTOS ' if ph else '')+mod,[float(x) if x[0].isdigit() else x for x in ps]) for bf,ds,ph,mod,ps in v] for m,v in T.items()}
def run(s):
    txt,T,Toff=build(s)
    out=[]
    for flag,exp in ((True,T),(False,Toff)):
        try:
            p=DecFileParser.from_string(txt); p.parse(include_ccdecays=flag); got=obs(p)
            if got!=norm(exp) or len(p.list_decay_mother_names())!=len(exp): out.append((s,flag,txt,got))
        except Exception as e: out.append((s,flag,txt,repr(e)[:100]))
    return out
S=list(scen()); print(len(S)); t0=time.time()
with ProcessPoolExecutor(16) as ex: res=[x for r in ex.map(run,S,chunksize=20) for x in r]
print(len(res), time.time()-t0)
for r in res[:3]: print(r)
