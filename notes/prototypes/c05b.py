import warnings, itertools, time
from concurrent.futures import ProcessPoolExecutor
warnings.simplefilter("ignore")
from decaylanguage import DecFileParser
# scenario: defs: list of (name,value) statements with positions; aliases: (name, model, params) with positions; blocks: list of lines (model-or-alias, params)
def render(stmts): return "\n".join(stmts)+"\n"
def ref(blocks, defs, aliases, copies, cds):
    D={}; 
    for n,v in defs: D[n]=float(v)
    A={}
    for n,m,ps in aliases: A[n]=(m,ps)
    def sub(ps):
        out=[]
        for x in ps:
            try: out.append(float(x)); continue
            except ValueError: pass
            if x in D: out.append(D[x])
            elif x.startswith('-') and x[1:] in D: out.append(-D[x[1:]])
            else: out.append(x)
        return out
    T={}
    for m,lines in blocks:
        if m in T: continue
        T[m]=[]
        for bf,ds,mod,ps in lines:
            if mod in A: mod,ps=A[mod]
            T[m].append((float(bf),ds,mod,sub(ps)))
    return T
def observe(p):
    return {m:[(d['bf'],d['fs'],d['model'],list(d['model_params']) if d['model_params'] else []) for d in (p._decay_mode_details(x) for x in p._find_decay_modes(m))] for m in dict.fromkeys(p.list_decay_mother_names())}
def scen():
    defsets=[[],[('a','3')],[('a','3'),('a','-4.5')],[('a','3'),('b','1e2'),('a','7')],[('dm','0.5'),('dm2','2'),('xdm','9')]]
    aliassets=[[],[('MA','SVS',['a','1.0'])],[('MA','SVS',['a']),('MA','HELAMP',['-a','w','a'])],[('MA','PHSP',[]),('MB','SVS',['-dm','dm2','xdm','q'])]]
    for defs in defsets:
      for als in aliassets:
        names=[d[0] for d in defs]; 
        plist=[[],['a'],['-a','a','w'],['dm','-dm2','xdm','dmx','1.5'],['b','-b','+3']]
        for nblocks in (1,2,3):
          for uses in (1,2,3):
            for ps in plist:
              for usealias in ([None]+[a[0] for a in als]):
                for pos in ('before','between','after','split'):
                    blocks=[]
                    for b in range(nblocks):
                        lines=[]
                        for u in range(uses):
                            if usealias and (u+b)%2==0: lines.append((f"0.{b}{u}1",['a','X'],usealias,[]))
                            else: lines.append((f"0.{b}{u}1",['a','X'],'SVS',ps))
                        blocks.append((f"M{b}",lines))
                    yield defs,als,blocks,pos
def text(defs,als,blocks,pos):
    dstm=[f"Define {n} {v}" for n,v in defs]; astm=[f"ModelAlias {n} {m} {' '.join(ps)};" for n,m,ps in als]
    bst=[]
    for m,lines in blocks:
        bst.append("\n".join([f"Decay {m}"]+[f"{bf} {' '.join(ds)} {mod} {' '.join(ps)};" for bf,ds,mod,ps in lines]+["Enddecay"]))
    G=dstm+astm
    if pos=='before': st=G+bst
    elif pos=='after': st=bst+G
    elif pos=='between': st=bst[:1]+G+bst[1:]
    else: st=G[::2]+bst+G[1::2]
    return render(st)
def run(s):
    defs,als,blocks,pos=s
    t=text(*s)
    try:
        p=DecFileParser.from_string(t); p.parse()
        got=observe(p)
    except Exception as e: return (t,repr(e)[:120])
    exp={m:[(bf,ds,mod,ps) for bf,ds,mod,ps in v] for m,v in ref(blocks,defs,als,[],[]).items()}
    exp={m:[(bf,ds,mod,ps) for bf,ds,mod,ps in v] for m,v in exp.items()}
    ok = got=={m:[(bf,ds,mod,ps) for bf,ds,mod,ps in v] for m,v in exp.items()} and p.dict_definitions()=={n:float(v) for n,v in defs}
    return None if ok else (t,got,exp)
S=list(scen()); print(len(S)); t0=time.time()
with ProcessPoolExecutor(16) as ex: res=[r for r in ex.map(run,S,chunksize=50) if r]
print(len(res), time.time()-t0)
for r in res[:3]: print(r)
