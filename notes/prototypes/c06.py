import warnings, itertools, time
warnings.simplefilter("ignore")
from decaylanguage import DecFileParser
from decaylanguage.dec.enums import known_decay_models as KM
print(len(KM), len(set(KM)))
pairs=[(a,b) for a in KM for b in KM if a!=b and b.startswith(a)]
print(len(pairs), pairs[:10])
# one packed file: for each model, lines in contexts
def ctxs(m):
    yield f"1.0 A B {m};", (['A','B'], m, '')
    yield f"1.0 A B PHOTOS {m};", (['A','B'], 'PHOTOS '+m, '')
    yield f"1.0 {m};", ([], m, '')
    yield f"1.0 A {m} 1.0 w {m}x y{m} {m}_1 {m}9;", (['A'], m, [1.0,'w',m+'x','y'+m,m+'_1',m+'9'])
    yield f"1.0 {m}x {m}_ {m}0 x{m} PHOTOS {m} 2;", ([m+'x',m+'_',m+'0','x'+m], 'PHOTOS '+m, [2.0])
lines=[];exp=[]
for m in KM:
    for l,e in ctxs(m): lines.append(l); exp.append(e)
txt="Decay M\n"+"\n".join(lines)+"\nEnddecay\n"
p=DecFileParser.from_string(txt); p.parse()
got=[(d['fs'],d['model'],d['model_params']) for d in (p._decay_mode_details(x) for x in p._find_decay_modes('M'))]
bad=[(l,g,e) for l,g,e in zip(lines,got,exp) if g!=tuple(e) and list(g)!=list(e)]
print(len(lines), len(bad)); print(bad[:5])
# user registered names
users=["MYMODEL","MY_MODEL","MY-MODEL","PHS","SV","BTOSLL","PHSP_X","PHSP-X","HQET33","Q","my.model","M(1)X","A*B","X+Y","m1","SVS_CP_","BC"]
for u in users:
    p=DecFileParser.from_string(f"Decay M\n1.0 A B {u} 1.0;\n0.5 A {u}x PHSP;\n0.5 A PHSP_CP 1;\n0.5 A BTOSLLALI;\nEnddecay\n")
    p.load_additional_decay_models(u)
    try:
        p.parse(); print(u, [(d['fs'],d['model'],d['model_params']) for d in (p._decay_mode_details(x) for x in p._find_decay_modes('M'))])
    except Exception as e: print(u, "EXC", type(e).__name__, str(e)[:100].replace("\n"," "))
# unknown near-miss
for w in ["PHS","PHSPP","phsp","SVS_","Phsp","SVS_CP_IS","HQET4","XYZ","PHSP1","_PHSP","PHSP_"]:
    p=DecFileParser.from_string(f"Decay M\n1.0 A B {w};\nEnddecay\n")
    try: p.parse(); print(w,"ACCEPTED", [(d['fs'],d['model'],d['model_params']) for d in (p._decay_mode_details(x) for x in p._find_decay_modes('M'))])
    except Exception as e: print(w, type(e).__name__)
for w in ["PHS","SVS_X"]:
    p=DecFileParser.from_string(f"Decay M\n1.0 A B {w} 1.0 2.0;\nEnddecay\n")
    try: p.parse(); print(w,"ACCEPTED", [(d['fs'],d['model'],d['model_params']) for d in (p._decay_mode_details(x) for x in p._find_decay_modes('M'))])
    except Exception as e: print(w, type(e).__name__)
