import warnings, time, os
from concurrent.futures import ProcessPoolExecutor
warnings.simplefilter("ignore")
from decaylanguage import DecFileParser
from decaylanguage.dec.enums import known_decay_models as KM
cases=[]
for N in KM:
    for k in range(1,len(N)):
        P=N[:k]
        if P in KM or not (P[-1].isalnum() or P[-1]=='_'): continue
        cases.append((N,P))
print(len(cases))
def run(c):
    N,P=c
    p=DecFileParser.from_string(f"Decay M\n1.0 A q1 {P} 1.0;\n0.5 A {P}x {N};\n0.5 {N}x {N} 2 {P}y;\n0.25 A PHOTOS {P};\nEnddecay\n")
    p.load_additional_decay_models(P)
    try:
        p.parse()
        got=[(d['fs'],d['model'],d['model_params']) for d in (p._decay_mode_details(x) for x in p._find_decay_modes('M'))]
    except Exception as e:
        return (c, repr(e)[:100])
    exp=[(["A","q1"],P,[1.0]),(['A',P+'x'],N,''),([N+'x'],N,[2.0,P+'y']),(['A'],'PHOTOS '+P,'')]
    return None if got==exp else (c,got)
t=time.time()
with ProcessPoolExecutor(16) as ex: res=[r for r in ex.map(run,cases,chunksize=20) if r]
print(len(res), res[:5], time.time()-t)
