import warnings
from decaylanguage import DecFileParser
def show(s, qs=None, **kw):
    with warnings.catch_warnings(record=True) as w:
        warnings.simplefilter("always")
        try:
            p = DecFileParser.from_string(s); p.parse(**kw)
        except Exception as e: print("PARSE EXC", type(e).__name__, str(e)[:200].replace("\n"," ")); return
        for q in ['dict_aliases','dict_charge_conjugates','dict_definitions','dict_decays2copy','list_charge_conjugate_decays','get_particle_property_definitions','dict_pythia_definitions','dict_jetset_definitions','dict_lineshape_settings','list_lineshapePW_definitions','global_photos_flag']:
            try: print("  ",q, repr(getattr(p,q)()))
            except Exception as e: print("  ",q,"EXC", type(e).__name__, str(e)[:100], '<-', type(e.__cause__).__name__, str(e.__cause__)[:100])
        for x in w: print("   WARN:", str(x.message).replace("\n"," ")[:160])
show("""Alias A B0
Alias A B+
Alias C D0
ChargeConj A Abar
ChargeConj A Abar2
Define x 1
Define x -2.5e3
Define y +.5
CopyDecay N O
CopyDecay N P
CDecay Z
CDecay Y
CDecay Z
Particle A 5.0 0.1
Particle A 6
Particle C 1.8
Particle rho0 0.7
Particle K*0 -0.9 +2
PythiaBothParam ParticleDecays:mixB=off
PythiaBothParam ParticleDecays:mixB=on
PythiaAliasParam ParticleDecays:tauPolarization=-1.
PythiaGenericParam A:b=3
PythiaGenericParam A:b2=1e3
JetSetPar MSTU(1)=0
JetSetPar MSTU(1)=5
JetSetPar PARU(11)=0.001
JetSetPar PARU(12)=-1
JetSetPar PARU(13)=+2
JetSetPar PARU(14)=1.
JetSetPar PARU(15)=1e2
LSNONRELBW rho0
LSFLAT A
LSMANYDELTAFUNC C
BlattWeisskopf rho0 3.0
BlattWeisskopf Q 1
ChangeMassMin rho0 0.7
ChangeMassMax rho0 0.9
ChangeMassMax R 4
IncludeBirthFactor rho0 no
IncludeDecayFactor rho0 yes
IncludeDecayFactor S yes
SetLineshapePW D_1+ D*+ pi0 2
SetLineshapePW D_1+ D*+ pi0 3
SetLineshapePW D_1+ D*0 pi+ 0
noPhotos
yesPhotos
noPhotos
""")
show("LSFLAT A\nLSNONRELBW A\n")
show("BlattWeisskopf A 1\nBlattWeisskopf A 2\n")
show("BlattWeisskopf A 1\nLSFLAT A\n")
show("ChangeMassMin A 1\nChangeMassMin A 2\n")
show("IncludeBirthFactor A yes\nIncludeBirthFactor A no\n")
show("Particle Foo 1.0\n")
show("Alias Foo Bar\nParticle Foo 1.0\n")
show("Alias Foo K*0\nAlias Foo rho0\nParticle Foo 1.0\n")
show("JetSetPar MSTU(1)x=0\n")
show("JetSetPar MSTU1=0\n")
show("JetSetPar M2(1)=0\n")
show("PythiaBothParam A:b = c\n")
show("SetLineshapePW D_1+ D*+ pi0 -2\n")
show("")
