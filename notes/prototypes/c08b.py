import warnings, sys
warnings.simplefilter("ignore")
from lark import Tree, Token
from decaylanguage import DecFileParser
s = """Define a 3
ModelAlias MB HELAMP a -a zz;
ModelAlias MC PHSP;
Decay B0
0.5 D- pi+ MB;
0.5 D- K+ MB;
0.1 K+ K- MC;
Enddecay
Decay D0
1.0 K- pi+ MB;
0.1 K+ K- MC;
Enddecay
CDecay anti-B0
CopyDecay MyB B0
CDecay anti-D0
"""
p = DecFileParser.from_string(s); p.parse()
def ids(t, acc):
    acc.add(id(t)); 
    if isinstance(t, Tree):
        acc.add(id(t.children))
        for c in t.children: ids(c, acc)
    return acc
sets = [(t.children[0].children[0].value, ids(t,set())) for t in p._parsed_decays]
import itertools
shared = [(a,b,len(x&y)) for (a,x),(b,y) in itertools.combinations(sets,2) if x&y]
print(sys.path[1] if 'fixrepo' in ''.join(sys.path) else 'REPO', p.list_decay_mother_names(), "shared:", shared)
