import warnings, io, contextlib, itertools, time, copy, hashlib
warnings.simplefilter("ignore")
from lark import Tree, Token
from decaylanguage import DecFileParser
TXT = """Alias MyD0 D0
Alias MyAntiD0 anti-D0
ChargeConj MyD0 MyAntiD0
Define a 3
ModelAlias MB HELAMP a -a zz;
ModelAlias MC PHSP;
yesPhotos
Particle MyD0 1.8
JetSetPar MSTU(1)=0
PythiaBothParam A:b=off
LSFLAT rho0
SetLineshapePW D_1+ D*+ pi0 2
Decay B0
0.5 MyAntiD0 pi+ pi0 MB;
0.5 D- K+ PHOTOS MB;
0.1 K+ K- MC;
Enddecay
Decay MyD0
1.0 K- pi+ MB;
0.1 K+ K- pi0 pi0 MC;
Enddecay
Decay pi0
1.0 gamma gamma PHSP;
Enddecay
CDecay anti-B0
CopyDecay MyB B0
CDecay MyAntiD0
"""
MOTHERS=['B0','MyD0','MyB','anti-B0','MyAntiD0','pi0']
def out(f,*a,**k):
    b=io.StringIO()
    with contextlib.redirect_stdout(b): f(*a,**k)
    return b.getvalue()
def snapshot(p):
    s={}
    s['mothers']=p.list_decay_mother_names(); s['n']=p.number_of_decays; s['repr']=repr(p)
    for m in dict.fromkeys(s['mothers']):
        s['modes',m]=p.list_decay_modes(m); s['chain',m]=p.build_decay_chains(m); s['chainS',m]=p.build_decay_chains(m,stable_particles=['pi0','MyAntiD0'])
        s['exp',m]=p.expand_decay_modes(m); s['print',m]=out(p.print_decay_modes,m); s['printn',m]=out(p.print_decay_modes,m,normalize=True,print_model=False)
    for q in ['dict_aliases','dict_charge_conjugates','dict_definitions','dict_decays2copy','list_charge_conjugate_decays','get_particle_property_definitions','dict_pythia_definitions','dict_jetset_definitions','dict_lineshape_settings','list_lineshapePW_definitions','global_photos_flag','dict_model_aliases']:
        s[q]=getattr(p,q)()
    return repr(sorted(s.items(),key=repr))
def share_ok(p):
    def ids(t,acc):
        acc.add(id(t))
        if isinstance(t,Tree):
            acc.add(id(t.children))
            for c in t.children: ids(c,acc)
        return acc
    sets=[ids(t,set()) for t in p._parsed_decays]
    return not any(x&y for x,y in itertools.combinations(sets,2))
def scribble(v):
    if isinstance(v,list):
        for x in v: scribble(x)
        v.append('JUNK'); 
        if v: v[0]='JUNK0'
    elif isinstance(v,dict):
        for x in list(v.values()): scribble(x)
        for k in list(v):
            if isinstance(v[k],(int,float,str)): v[k]=-1
        v['JUNK']=1
    elif isinstance(v,tuple):
        for x in v: scribble(x)
OPS=[]
for m in ['B0','MyB','anti-B0','MyAntiD0']:
    OPS+= [('list_decay_modes',(m,),{}),('build_decay_chains',(m,),{}),('build_decay_chains',(m,),{'stable_particles':['pi0']}),('expand_decay_modes',(m,),{}),('print_decay_modes',(m,),{}),('print_decay_modes',(m,),{'scale':0.5,'ascending':True})]
for q in ['list_decay_mother_names','dict_aliases','dict_charge_conjugates','dict_definitions','dict_decays2copy','list_charge_conjugate_decays','get_particle_property_definitions','dict_pythia_definitions','dict_jetset_definitions','dict_lineshape_settings','list_lineshapePW_definitions','global_photos_flag','dict_model_aliases']:
    OPS.append((q,(),{}))
OPS+= [('parse',(),{}),('parse',(),{'include_ccdecays':False})]
def fresh(cc=True):
    p=DecFileParser.from_string(TXT); p.parse(include_ccdecays=cc); return p
REF={True:snapshot(fresh(True)),False:snapshot(fresh(False))}
def run(hist):
    p=fresh(); cc=True
    for name,a,k in hist:
        if name=='parse':
            cc=k.get('include_ccdecays',True)
        try:
            with contextlib.redirect_stdout(io.StringIO()):
                r=getattr(p,name)(*a,**k)
            scribble(r)
        except Exception as e:
            if type(e).__name__!='DecayNotFound': return False
        if snapshot(p)!=REF[cc] or not share_ok(p): return False
    return True
print(len(OPS)); t=time.time(); n=bad=0
for h in itertools.chain(((o,) for o in OPS), itertools.product(OPS,repeat=2)):
    n+=1
    if not run(h):
        bad+=1
        if bad<5: print("BAD",[x[0] for x in h])
print(n,bad,time.time()-t)
