import warnings, itertools, time
warnings.simplefilter("ignore")
from decaylanguage import DecFileParser
from decaylanguage.dec.dec import DecayNotFound
# tables: dict name -> list of (bf, [daughters], model, params)
def render(tables):
    out=[]
    for m, lines in tables.items():
        out.append(f"Decay {m}")
        for bf, ds, model, params in lines:
            out.append(f"{bf} {' '.join(ds)} {model} {' '.join(map(str,params))};")
        out.append("Enddecay")
    return "\n".join(out)+"\n"
def ref_chain(tables, m, S):
    res=[]
    for bf, ds, model, params in tables[m]:
        fs=[]
        for d in ds:
            if d in tables and d not in S: fs.append(ref_chain(tables,d,S))
            else: fs.append(d)
        res.append({'bf':bf,'fs':fs,'model':model,'model_params':list(params) if params else ''})
    return {m:res}
def ref_count(tables, m, top=True):
    if m not in tables or (not tables[m] and not top): return 1
    tot=0
    for bf, ds, model, params in tables[m]:
        c=1
        for d in ds: c*=ref_count(tables,d,False)
        tot+=c
    return tot
# enumerate small
names=['M','X','Y']; leaves=['p','q']
def lines_over(pool, maxlen):
    for n in range(maxlen+1):
        for ds in itertools.product(pool, repeat=n): yield list(ds)
Mlines=list(lines_over(['X','Y','p'],3))
Xlines=list(lines_over(['Y','p'],2))
Ylines=list(lines_over(['p','q'],1))
cnt=0; bad=0; t=time.time()
import collections
bads=collections.Counter()
for ml in Mlines[:]:
  for xopt in [None, []]+[[l] for l in Xlines]+[[Xlines[1],Xlines[3]]]:
    for yopt in [None, []]+[[l] for l in Ylines]+[[Ylines[1],Ylines[2]]]:
        tables={'M':[(0.5,ml,'PHSP',[]),(0.25,['p','X'],'SVS',[1.0])]}
        if xopt is not None: tables['X']=[(0.5**(i+1),l,'PHSP',[]) for i,l in enumerate(xopt)]
        if yopt is not None: tables['Y']=[(0.5**(i+3),l,'PHSP',[]) for i,l in enumerate(yopt)]
        p=DecFileParser.from_string(render(tables)); p.parse()
        for S in [(),('X',),('Y',),('X','Y'),('p',)]:
            cnt+=1
            got=p.build_decay_chains('M', stable_particles=S)
            exp=ref_chain(tables,'M',S)
            if got!=exp: bad+=1; bads['chain']+=1
        got=p.expand_decay_modes('M')
        if len(got)!=ref_count(tables,'M'):
            bads['count']+=1
            # is it F12 (empty block reachable)?
            empt=[k for k,v in tables.items() if not v]
            if not empt: print("NON-F12 count mismatch", tables, got)
        if len(set(got))!=len(got): pass
print(cnt, bad, bads, time.time()-t)
