import warnings, time, sys, collections
warnings.simplefilter("ignore")
sys.setrecursionlimit(10000)
from decaylanguage import DecFileParser
from decaylanguage.decay.decay import DaughtersDict
p=DecFileParser('/repo/src/decaylanguage/data/DECAY_LHCB.DEC'); p.parse()
mothers=p.list_decay_mother_names()
T={}
for m in mothers:
    if m in T: continue
    T[m]=[dict(p._decay_mode_details(x, display_photos_keyword=False)) for x in p._find_decay_modes(m)]
aliases=p.dict_aliases()
# cycle detection + size DP
size={}; paths={}
state={}
def dp(m):
    if m in size: return size[m], paths[m]
    if state.get(m)==1: raise RecursionError("cycle at "+m)
    state[m]=1
    s=1; n=0
    for l in T[m]:
        c=1; s+=1
        for d in l['fs']:
            if d in T:
                ds,dn=dp(d); s+=ds; c*= (dn if T[d] else 1)
            else: s+=1
        n+=c
    state[m]=2; size[m]=s; paths[m]=n
    return s,n
cyc=[]
for m in T:
    try: dp(m)
    except RecursionError as e: cyc.append(m); state.clear()
print(len(T), "cyclic:", len(cyc), cyc[:5])
import statistics
ok=[m for m in T if m in size]
print("sizes", sorted(size[m] for m in ok)[-5:], "paths", sorted(paths[m] for m in ok)[-5:])
def unfold(m,S):
    return {m:[{**l,'fs':[unfold(d,S) if (d in T and d not in S) else d for d in l['fs']]} for l in T[m]]}
t=time.time(); n=bad=0
for m in ok:
    if size[m]<=20000:
        n+=1
        got=p.build_decay_chains(m); 
        if got!=unfold(m,()): bad+=1; print("BAD chain",m)
print("chains",n,bad,time.time()-t)
t=time.time(); n=bad=0
for m in ok:
    if paths[m]<=50000 and size[m]<=200000:
        n+=1
        got=p.expand_decay_modes(m)
        if len(got)!=paths[m]: bad+=1; print("BAD count",m,len(got),paths[m])
print("expand",n,bad,time.time()-t)
