import warnings
warnings.simplefilter("ignore")
from decaylanguage import DecFileParser
s = """Alias MyD0 D0
Alias MyK K_S0
Alias MyPi pi0
Decay B0
0.5 MyD0 MyK MyPi PHSP;
0.5 MyD0 MyD0 PHSP;
Enddecay
Decay MyD0
0.5 K- pi+ MyPi PHSP;
0.5 MyK MyK PHSP;
Enddecay
Decay MyK
1.0 pi+ pi- PHSP;
Enddecay
"""
p = DecFileParser.from_string(s); p.parse()
for d in p.expand_decay_modes('B0'): print(d)
print(p.expand_decay_modes('MyD0'))
