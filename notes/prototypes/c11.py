import itertools, time, collections
from decaylanguage import DecayChain, DecayMode, DaughtersDict
exec(open('c12.py').read().split("def ref_flatten")[0])
REAL=['D*+','D0','K_1(1270)+',"f'_0",'anti-K*0','Upsilon(4S)']  # names w/ parens
def parse_desc(s):
    # tokens by space; parse "(M -> d d)" nesting by paren balance
    toks=s.split(' ')
    pos=0
    def bal(t): 
        b=0; mn=0
        for ch in t:
            if ch=='(': b+=1
            elif ch==')': b-=1
            mn=min(mn,b)
        return b,mn
    def parse_level(top):
        nonlocal pos
        m=toks[pos]; pos+=1
        if not top:
            assert m[0]=='('; m=m[1:]
        assert toks[pos]=='->'; pos+=1
        ds=[]
        while pos<len(toks):
            t=toks[pos]
            # opening of subdecay: token with net +1 and next tok is '->'
            if pos+1<len(toks) and toks[pos+1]=='->':
                ds.append(parse_level(False))
                # after sub returns, check if closers remain handled inside
                if closes[0]>0:
                    closes[0]-=1
                    if not top: return (m, ds)
                continue
            b,mn=bal(t)
            pos+=1
            if b<0:
                name=t[:len(t)+b]  # strip trailing ')'
                ds.append(name)
                closes[0]+= -b -1
                return (m, ds)
            ds.append(t)
        return (m, ds)
    closes=[0]
    r=parse_level(True)
    assert pos==len(toks) and closes[0]==0, (s, pos, closes)
    return r
def ref_tree(decays, n):
    ds=[]
    for d,m in decays[n].items():
        for _ in range(m):
            ds.append(ref_tree(decays,d) if d in decays else d)
    return (n, ds)
def canon(t):
    if isinstance(t,str): return t
    return (t[0], tuple(sorted((canon(x) for x in t[1]), key=repr)))
tot=0;bad=0;f4=0;t=time.time()
for k in range(0,4):
    for decays0 in enum_chains(k):
        ren={f"P{i}":REAL[i] for i in range(k+1)}; ren.update(a='pi+',b='K_S0')
        decays={ren[n]:{ren[d]:m for d,m in dd.items()} for n,dd in decays0.items()}
        dms={n:DecayMode(0.5, dict(d), model='M', study=[1,{'x':n}]) for n,d in decays.items()}
        dc=DecayChain(REAL[0], dms)
        d=dc.to_dict()
        tot+=1
        try:
            dc2=DecayChain.from_dict(d)
            ok = dc2.mother==dc.mother and set(dc2.decays)==set(dc.decays) and all(dc2.decays[n].to_dict()==dc.decays[n].to_dict() for n in dc.decays) and dc2.to_dict()==d
        except RuntimeError as e:
            # F4 iff some decaying particle occurs twice in tree
            occ=collections.Counter()
            def walk(n):
                occ[n]+=1
                for dd,m in decays[n].items():
                    if dd in decays:
                        for _ in range(m): walk(dd)
            walk(REAL[0])
            if max(occ.values())>1: f4+=1; ok=True
            else: ok=False
        s=dc.to_string()
        try:
            got=canon(parse_desc(s)); exp=canon(ref_tree(decays,REAL[0]))
            ok = ok and got==exp
            if got!=exp and bad<5: print("DESC", s, got, exp)
        except Exception as e:
            ok=False; print("PARSEFAIL", s, repr(e))
        if not ok:
            bad+=1
            if bad<5: print("BAD", decays, s)
print(tot,bad,f4,time.time()-t)
