import itertools, warnings, collections
warnings.simplefilter("ignore")
from decaylanguage import DaughtersDict, DecayMode, DecayChain, DecFileParser
from particle.converters import EvtGenName2PDGIDBiMap as BM
from particle import PDGID, ParticleNotFound
names=['K+','K-','pi0','gamma',"D'_1+",'Foo']
bad=0;n=0
for k in range(0,5):
    for combo in itertools.product(names[:4], repeat=k):
        c=collections.Counter(combo)
        forms=[DaughtersDict(list(combo)), DaughtersDict(' '.join(combo)) if combo else DaughtersDict(), DaughtersDict(dict(c)), DaughtersDict({**c,'zero':0}), DaughtersDict(tuple(combo)), DaughtersDict(DaughtersDict(list(combo)))]
        n+=1
        if not all(f==forms[0] and len(f)==k and f.to_list()==sorted(combo) and f.to_string()==' '.join(sorted(combo)) and list(f)==list(forms[0]) for f in forms): bad+=1; print("BAD",combo,forms)
print("DaughtersDict",n,bad)
# from_pdgids over all ids
bad=0
for nm,i in BM._to_map.items():
    dm=DecayMode.from_pdgids(0.5,[i,i],model='PHSP',x=[1,{'a':2}])
    if dict(dm.daughters)!={nm:2} or dm.metadata!={'model':'PHSP','model_params':'','x':[1,{'a':2}]} or dm.bf!=0.5: bad+=1; print("BAD",nm,i,dm)
try: DecayMode.from_pdgids(0.5,[999999999]); print("no exc")
except ParticleNotFound: pass
print("from_pdgids",len(BM._to_map),bad)
# DecayMode roundtrip
metas=[{},{'model':'PHSP'},{'model':'SVS','model_params':[1.0,'w']},{'model':'X','study':{'a':[1,2,{'b':None}]},'year':2019}]
bad=0;n=0
for combo in itertools.chain.from_iterable(itertools.combinations_with_replacement(names,k) for k in range(0,4)):
    for md in metas:
        dm=DecayMode(0.25,list(combo),**md); d=dm.to_dict(); dm2=DecayMode.from_dict(d); n+=1
        if not (dm2.bf==dm.bf and dm2.daughters==dm.daughters and dm2.metadata==dm.metadata and dm2.to_dict()==d): bad+=1; print("BAD",combo,md)
        cc=dm.charge_conjugate()
        if len(cc)!=len(dm) or cc.bf!=dm.bf or cc.metadata!=dm.metadata: bad+=1; print("BADCC",combo,md,cc.metadata)
print("DecayMode",n,bad)
# parser-produced single-line chains
txt="""Decay D*+
0.677 D0 pi+ VSS;
Enddecay
Decay D0
0.0124 K_S0 pi0 pi0 PHSP;
Enddecay
Decay K_S0
0.692 pi+ pi- PHSP;
Enddecay
Decay pi0
0.988 gamma gamma PHOTOS SVS 1.0 w;
Enddecay
"""
p=DecFileParser.from_string(txt); p.parse()
ch=p.build_decay_chains('D*+')
dc=DecayChain.from_dict(ch); back=dc.to_dict()
def canon(d):
    if isinstance(d,str): return d
    (m,modes),=d.items()
    return (m,tuple((md['bf'],md['model'],repr(md['model_params']),tuple(sorted((canon(x) for x in md['fs']),key=repr))) for md in modes))
print("parser chain roundtrip", canon(ch)==canon(back), dc.to_string(), dc.flatten().bf)
