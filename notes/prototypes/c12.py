import itertools, time, collections
from fractions import Fraction
from decaylanguage import DecayChain, DecayMode, DaughtersDict
# chain shape: particles P0 (mother) .. Pk decaying; leaves a,b. Pi daughters multiset over P_{i+1..k} + leaves
def enum_chains(k, maxmult=2, maxd=3):
    names=[f"P{i}" for i in range(k+1)]
    leaves=['a','b']
    def rec(i, decays):
        if i>k:
            # all decaying must be reachable from P0
            reach=set(); stack=['P0']
            while stack:
                n=stack.pop()
                if n in reach: continue
                reach.add(n)
                for d in decays.get(n,{}): 
                    if d in decays: stack.append(d)
            if reach==set(decays): yield dict(decays)
            return
        pool=names[i+1:]+leaves
        for n in range(1,maxd+1):
            for combo in itertools.combinations_with_replacement(pool,n):
                c=collections.Counter(combo)
                if max(c.values())>maxmult: continue
                decays[names[i]]=dict(c)
                yield from rec(i+1, decays)
                del decays[names[i]]
    yield from rec(0,{})
def ref_flatten(decays, S):
    # leaves multiset & exponent counts
    cnt=collections.Counter(); leaves=collections.Counter()
    def walk(n, mult):
        cnt[n]+=mult
        for d,m in decays[n].items():
            if d in decays and d not in S: walk(d, mult*m)
            else: leaves[d]+=mult*m
    walk('P0',1)
    return leaves, cnt
tot=0;bad=0;t=time.time()
for k in range(0,4):
    for decays in enum_chains(k):
        bfs={n:Fraction(1, p) for n,p in zip(sorted(decays),[2,3,5,7,11,13])}
        dms={n:DecayMode(bfs[n], dict(d), model='M'+n, extra=n) for n,d in decays.items()}
        subs=[n for n in decays if n!='P0']
        for r in range(len(subs)+1):
          for S in itertools.combinations(subs,r):
            for perm in (itertools.permutations(list(dms.items())) if k<=2 else [list(dms.items()), list(dms.items())[::-1]]):
                dc=DecayChain('P0', dict(perm))
                before=dc.to_dict()
                fl=dc.flatten(stable_particles=S)
                leaves,cnt=ref_flatten(decays,set(S))
                expbf=Fraction(1)
                for n,c in cnt.items(): expbf*=bfs[n]**c
                tot+=1
                ok = fl.ndecays==1 and dict(fl.decays['P0'].daughters)==dict(leaves) and fl.bf==expbf and fl.decays['P0'].metadata==dms['P0'].metadata and dc.to_dict()==before
                if not ok:
                    bad+=1
                    if bad<5: print("BAD", decays, S, fl, dict(leaves), expbf)
print(tot,bad,time.time()-t)
