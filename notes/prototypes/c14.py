import itertools, collections
from decaylanguage.utils import DescriptorFormat as DF
from decaylanguage import DecayChain, DecayMode
DEFAULT = dict(DF.config)
dc = DecayChain('A', {'A': DecayMode(1,'B C'), 'B': DecayMode(1,'x y')})
PATS = [("{mother} => {daughters}", "[{mother} => {daughters}]"), ("{mother} --> {daughters}", "<{mother} --> {daughters}>")]
BAD = [("{mother} -> x", "({mother} -> {daughters})"), ("{mother} -> {daughters} {extra}", "({mother} -> {daughters})"), ("{mother} -> {daughters}", "{} {mother} {daughters}")]
def render(cfg):
    return cfg['decay_pattern'].format(mother='A', daughters=cfg['sub_decay_pattern'].format(mother='B', daughters='x y')+' C')
# ops: ('new',i) create ctx object with pattern i ; ('enter',k) enter k-th created object ; ('exit',) normal ; ('exitexc',) ; ('set',i) ; ('setbad',j) ; ('render',)
def run(seq):
    DF.config = dict(DEFAULT)
    objs=[]; stack=[]   # model
    model = dict(DEFAULT)
    for op in seq:
        if op[0]=='new':
            objs.append((DF(*PATS[op[1]]), PATS[op[1]]))
        elif op[0]=='enter':
            if op[1]>=len(objs): return 'skip'
            o,p=objs[op[1]]
            o.__enter__(); stack.append((o, dict(model))); model={'decay_pattern':p[0],'sub_decay_pattern':p[1]}
        elif op[0] in ('exit','exitexc'):
            if not stack: return 'skip'
            o,old=stack.pop()
            if op[0]=='exit': o.__exit__(None,None,None)
            else:
                e=ValueError('x'); o.__exit__(ValueError,e,None)
            model=old
        elif op[0]=='set':
            DF.set_config(*PATS[op[1]]); model={'decay_pattern':PATS[op[1]][0],'sub_decay_pattern':PATS[op[1]][1]}
        elif op[0]=='setbad':
            try: DF.set_config(*BAD[op[1]]); return ('accepted bad', seq)
            except ValueError: pass
        if DF.config!=model or dc.to_string()!=render(model): return ('mismatch', seq, DF.config, model)
    return 'ok'
ops=[('new',0),('new',1),('enter',0),('enter',1),('exit',),('exitexc',),('set',0),('set',1),('setbad',0),('setbad',1),('setbad',2)]
res=collections.Counter(); firsts=[]
for n in range(1,6):
    for seq in itertools.product(ops, repeat=n):
        r=run(seq)
        if isinstance(r,tuple):
            res[r[0]]+=1
            if len(firsts)<4: firsts.append(r)
        else: res[r]+=1
print(res); 
for f in firsts: print(f)
