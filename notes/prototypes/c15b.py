import warnings, subprocess, json
warnings.simplefilter("ignore")
from decaylanguage import DecFileParser, DecayChainViewer
s = """Decay A
0.5 B C pi0 PHSP;
0.25 K+ K- PHSP;
Enddecay
Decay B
0.75 e+ e- PHSP;
Enddecay
"""
p = DecFileParser.from_string(s); p.parse()
v = DecayChainViewer(p.build_decay_chains('A'))
r = subprocess.run(['dot','-Tdot_json'], input=v.to_string().encode(), capture_output=True)
j = json.loads(r.stdout)
for o in j['objects']: print({k:o[k] for k in o if k in ('_gvid','name','label','shape','style')})
for e in j['edges']: print(e)
import time; t=time.time()
for i in range(20): subprocess.run(['dot','-Tdot_json'], input=v.to_string().encode(), capture_output=True)
print((time.time()-t)/20)
t=time.time()
for i in range(20): subprocess.run(['dot','-Tcanon'], input=v.to_string().encode(), capture_output=True)
print((time.time()-t)/20)
print(subprocess.run(['dot','-Tcanon'], input=v.to_string().encode(), capture_output=True).stdout.decode()[:1500])
