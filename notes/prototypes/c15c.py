import warnings, subprocess, json, itertools, time, re, html
warnings.simplefilter("ignore")
from decaylanguage import DecayChainViewer
from decaylanguage.decay import viewer as V
from particle import latex_to_html_name
from particle.converters.bimap import DirectionalMaps
E2L,_ = DirectionalMaps("EvtGenName","LaTexName")
def hname(n):
    try: return latex_to_html_name(E2L[n])
    except Exception: return n
# chain dict generator: tables over M>X>Y, leaves
def unfold(tables, m):
    return {m:[{'bf':bf,'fs':[unfold(tables,d) if d in tables else d for d in ds],'model':'PHSP','model_params':''} for bf,ds in tables[m]]}
def ref_graph(chain):
    # returns (nodes: list of (kind, cells)), edges: list of (src_node_idx or 'mother', port or None, dst_idx, label)
    nodes=[]; edges=[]
    def rec(modes, src, port):
        for mode in modes:
            fs=mode['fs']
            cells=[next(iter(p)) if isinstance(p,dict) else p for p in fs]
            idx=len(nodes); nodes.append(cells)
            edges.append((src,port,idx,str(mode['bf'])))
            if any(isinstance(p,dict) for p in fs):
                for i,p in enumerate(fs):
                    if isinstance(p,dict): rec(p[next(iter(p))], idx, i)
    k=next(iter(chain)); rec(chain[k], 'mother', None)
    return k,nodes,edges
def cells_of(label):
    return re.findall(r'<TD[^>]*>(.*?)</TD>', label)
def got_graph(src):
    r=subprocess.run(['dot','-Tdot_json'],input=src.encode(),capture_output=True)
    assert r.returncode==0, r.stderr
    j=json.loads(r.stdout)
    objs={o['_gvid']:o for o in j.get('objects',[])}
    return objs, j.get('edges',[])
def check(chain):
    v=DecayChainViewer(chain); objs,edges=got_graph(v.to_string())
    k,nodes,redges=ref_graph(chain)
    names=[o['name'] for o in objs.values()]
    assert len(set(names))==len(names)
    assert names.count('mother')==1
    decs=[o for o in objs.values() if o['name']!='mother']
    if len(decs)!=len(nodes) or len(edges)!=len(redges): return False
    # match by creation order: decN increasing
    decs.sort(key=lambda o:int(o['name'][3:]))
    for o,cells in zip(decs,nodes):
        if [c for c in cells_of(o["label"]) if c!=""]!=[hname(c) for c in cells]: return False
    idx={o['_gvid']:i for i,o in enumerate(decs)}
    mid=[g for g,o in objs.items() if o['name']=='mother'][0]
    got=sorted(((('mother' if e['tail']==mid else idx[e['tail']]), (int(e['tailport'][1:]) if 'tailport' in e else None), idx[e['head']], e['label']) for e in edges), key=repr)
    return got==sorted(redges,key=repr)
def lines_over(pool, maxlen):
    for n in range(maxlen+1):
        for ds in itertools.product(pool, repeat=n): yield list(ds)
tot=bad=0;t=time.time()
Ml=list(lines_over(['X','Y','K_S0'],3)); Xl=list(lines_over(['Y','pi0'],2)); Yl=[['e+','e-'],["D'_1+"],[]]
for ml in Ml:
  for nM in (1,2,4):
    for xopt in [None,[],[Xl[2]],[Xl[1],Xl[4]],Xl[:5]]:
      for yopt in [None,[],[Yl[0]],Yl]:
        tables={'M':[(0.5**(i+1), ml if i==0 else ['X','anti-B0'][:i%3]) for i in range(nM)]}
        if xopt is not None: tables['X']=[(0.25+i,l) for i,l in enumerate(xopt)]
        if yopt is not None: tables['Y']=[(0.125*(i+1),l) for i,l in enumerate(yopt)]
        ch=unfold(tables,'M'); tot+=1
        try: ok=check(ch)
        except Exception as e: ok=False; print("EXC",repr(e)[:200])
        if not ok:
            bad+=1
            if bad<4: print("BAD",tables)
print(tot,bad,time.time()-t)
