import warnings, io, contextlib, itertools
warnings.simplefilter("ignore")
from decaylanguage import DecFileParser
s = """Decay A
0.25 B C PHOTOS SVS 1.0 w;
0.5 D E PHSP;
0.25 F G PHSP;
1e-12 H PHSP;
0.123456789 I J K PHSP;
Enddecay
Decay K_S0
0.7 pi+ pi- PHSP;
0.3 pi0 pi0 PHSP;
Enddecay
"""
p = DecFileParser.from_string(s); p.parse()
def pr(*a, **kw):
    b = io.StringIO()
    try:
        with contextlib.redirect_stdout(b): p.print_decay_modes(*a, **kw)
        return b.getvalue()
    except Exception as e: return f"EXC {type(e).__name__}: {e}"
print(pr('A')); print(pr('A', print_model=False)); print(pr('A', display_photos_keyword=False)); print(pr('A', normalize=True)); print(pr('A', scale=0.1))
print(pr('K(S)0', pdg_name=True)); print(pr('A', normalize=True, scale=0.5)); print(pr('A', scale=0)); print(pr('A', scale=1.5)); print(pr('A', scale=-1)); print(pr('A', scale=1)); print(pr('Z'))
