import warnings, io, contextlib, itertools, time
from fractions import Fraction
warnings.simplefilter("ignore")
from decaylanguage import DecFileParser
BFS=[["0.5"],["0.2","0.5","0.3"],["0.25","0.5","0.25"],["0.5","0.5","0.5"],["1e-12","1","0.123456789","3e-7"],["0.1","0.2","0.3","0.4","0.05","0.05","0.6","0.6"],["0.3333333333","0.6666666667"]]
txt=[]
for i,b in enumerate(BFS):
    txt.append(f"Decay T{i}\n"+"".join(f"{v} d{j} e{j} {'PHOTOS ' if j%2 else ''}{'SVS 1.0 w' if j%3==0 else 'PHSP'};\n" for j,v in enumerate(b))+"Enddecay\n")
p=DecFileParser.from_string("".join(txt)); p.parse()
def pr(*a,**kw):
    b=io.StringIO()
    with contextlib.redirect_stdout(b): p.print_decay_modes(*a,**kw)
    return b.getvalue()
tot=bad=0
for i,b in enumerate(BFS):
  rows=[(Fraction(v), [f"d{j}",f"e{j}"], ("PHOTOS" if j%2 else None), ("SVS" if j%3==0 else "PHSP"), (["1.0","w"] if j%3==0 else [])) for j,v in enumerate(b)]
  for pm,dp,asc,mode in itertools.product([True,False],[True,False],[False,True],[None,'norm',1,0.5,1e-3]):
    kw=dict(print_model=pm, display_photos_keyword=dp, ascending=asc)
    if mode=='norm': kw['normalize']=True; f=1/sum(r[0] for r in rows)
    elif mode is None: f=Fraction(1)
    else: kw['scale']=mode; f=Fraction(mode)/max(r[0] for r in rows)
    out=pr(f"T{i}",**kw).splitlines()
    exp=sorted(rows,key=lambda r:(r[0] if asc else -r[0]))
    tot+=1; ok=len(out)==len(exp)
    for line,r in zip(out,exp):
        assert line.endswith(';'); toks=line[:-1].split()
        e=[*r[1]]
        if pm: e+= ([r[2]] if (r[2] and dp) else [])+[r[3]]+r[4]
        val=float(toks[0]); x=float(r[0]*f)
        if toks[1:]!=e or abs(val-x)>abs(x)*0.6e-6: ok=False
    if not ok:
        bad+=1
        if bad<4: print("BAD",i,kw,out,exp)
for kw in [dict(normalize=True,scale=0.5),dict(scale=0),dict(scale=-1),dict(scale=1.5),dict(scale=1.0000001)]:
    try: pr("T1",**kw); print("ACCEPTED",kw)
    except RuntimeError: pass
print(tot,bad)
