import itertools, cmath, time, os
from decaylanguage.modeling import amplitudechain
from decaylanguage.modeling.amplitudechain import AmplitudeChain
from particle import Particle
import os as _os
real = amplitudechain.particle_from_string_name
memo = {}
def cached(name):
    k=(name, len(Particle.all()))
    if k not in memo:
        try: memo[k]=(True, real(name))
        except Exception as e: memo[k]=(False, e)
    ok,v=memo[k]
    if ok: return v
    raise v
amplitudechain.particle_from_string_name = cached
PID={'D0':421,'K-':-321,'pi+':211,'pi-':-211,'K+':321,'K*(892)bar0':-313,'rho(770)0':113,'K(1)(1270)bar-':-10323,'a(1)(1260)+':20213,'PiPi00':998101,'KPi00':998111,'K(1460)bar-':-100321,'omega(782)0':223}
# tree: (name, spin, ls, daughters|None)
def render(t):
    n,sp,ls,ds=t
    s=n
    if sp and ls: s+=f"[{sp};{ls}]"
    elif sp: s+=f"[{sp}]"
    elif ls: s+=f"[{ls}]"
    if ds: s+="{"+",".join(render(d) for d in ds)+"}"
    return s
def expand(t, lines):
    n,sp,ls,ds=t
    if ds:
        return [(n,sp,ls,list(c)) for c in itertools.product(*[expand(d,lines) for d in ds])]
    alts=[x for (lt,_) in lines if lt[0]==n for x in expand(lt,lines)]
    return alts or [t]
def sig(line):
    return (int(line.particle.pdgid), line.spinfactor, line.lineshape, [sig(d) for d in line.daughters] if line.daughters else None)
def refsig(t):
    n,sp,ls,ds=t
    return (PID[n], sp or None, ls or None, [refsig(d) for d in ds] if ds else None)
Kst=('K*(892)bar0','', '', [('K-','','',None),('pi+','','',None)])
rho=('rho(770)0','','',[('pi+','','',None),('pi-','','',None)])
def leaf(n): return (n,'','',None)
tops=[
 ('D0','', '', [Kst, rho]),
 ('D0','D','', [leaf('K*(892)bar0'), leaf('rho(770)0')]),
 ('D0','', '', [leaf('K(1)(1270)bar-'), leaf('pi+')]),
 ('D0','', '', [('K(1)(1270)bar-','', 'GSpline.EFF',[leaf('rho(770)0'),leaf('K-')]), leaf('pi+')]),
 ('D0','', '', [leaf('a(1)(1260)+'), leaf('K-')]),
 ('D0','P','', [leaf('rho(770)0'), Kst]),
]
partials=[
 ('K(1)(1270)bar-','D','GSpline.EFF',[leaf('K*(892)bar0'),leaf('pi-')]),
 ('K(1)(1270)bar-','','',[leaf('rho(770)0'),leaf('K-')]),
 ('K(1)(1270)bar-','','GSpline.EFF',[('omega(782)0','','',[leaf('pi+'),leaf('pi-')]),leaf('K-')]),
 ('rho(770)0','','',[leaf('pi+'),leaf('pi-')]),
 ('rho(770)0','P','',[leaf('pi-'),leaf('pi+')]),
 ('K*(892)bar0','','',[leaf('K-'),leaf('pi+')]),
 ('K*(892)bar0','','FOCUS.Kpi',[leaf('K-'),leaf('pi+')]),
 ('a(1)(1260)+','','',[leaf('rho(770)0'),leaf('pi+')]),
 ('a(1)(1260)+','D','GSpline.EFF',[('PiPi00','','kMatrix.pole.1',[leaf('pi+'),leaf('pi-')]),leaf('pi+')]),
]
amps=[(1.0,0.0),(0.5,2.0),(0.36,-1.99),(2,3.14159)]
VOC=list(PID)
for n in VOC:
    try: cached(n)
    except Exception: pass
special=_os.path.join(_os.path.dirname(amplitudechain.__file__),'..','data','MintDalitzSpecialParticles.csv')
Particle.load_table(special, append=True)
for n in VOC:
    try: cached(n)
    except Exception: pass
Particle.load_table()
print('warm', len(memo), len(Particle.all()))
tot=bad=0; t0=time.time()
for nt in (1,2):
  for tsel in itertools.combinations(range(len(tops)),nt):
    for npz in (0,1,2,3):
      for psel in itertools.combinations(range(len(partials)),npz):
        for order in (0,1):
            lines=[(tops[i],amps[j%4]) for j,i in enumerate(tsel)]+[(partials[i],amps[(j+1)%4]) for j,i in enumerate(psel)]
            if order: lines=lines[::-1]
            txt="EventType D0 K- pi+ pi+ pi-\n"+"".join(f"{render(t)} 0 {a[0]} 0.1 2 {a[1]} 0.2\n" for t,a in lines)
            exp=[(refsig(x),a) for (t,a) in lines if t[0]=='D0' for x in expand(t,lines)]
            pid=os.fork()
            if pid==0:
                try:
                    got,_,_,st=AmplitudeChain.read_ampgen(text=txt)
                    g=[(sig(l),l.amp) for l in got]
                    ok = len(g)==len(exp) and all(gs==es and abs(ga-ea[0]*cmath.exp(1j*ea[1]))<1e-12 for (gs,ga),(es,ea) in zip(g,exp))
                    if not ok: print("BAD",txt,[x[0] for x in g][:3],[x[0] for x in exp][:3])
                    os._exit(0 if ok else 1)
                except Exception as e:
                    print("EXC",repr(e)[:200],txt); os._exit(2)
            _,st=os.waitpid(pid,0); tot+=1
            if st!=0: bad+=1
print(tot,bad,time.time()-t0)
