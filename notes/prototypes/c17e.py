import time, os, functools
from decaylanguage.modeling import amplitudechain
from decaylanguage.modeling.amplitudechain import AmplitudeChain
from particle import Particle
real = amplitudechain.particle_from_string_name
memo = {}
def cached(name):
    k=(name, len(Particle.all()))
    if k not in memo: memo[k]=real(name)
    return memo[k]
amplitudechain.particle_from_string_name = cached
txt="EventType D0 K- pi+ pi+ pi-\nD0{K*(892)bar0{K-,pi+},rho(770)0{pi+,pi-}} 0 1 0.1 2 0 0.2\n"
t=time.time(); AmplitudeChain.read_ampgen(text=txt); print("first", time.time()-t)
t=time.time()
for i in range(20): AmplitudeChain.read_ampgen(text=txt)
print("avg memo in-process", (time.time()-t)/20)
def child():
    pid=os.fork()
    if pid==0:
        AmplitudeChain.read_ampgen(text=txt); os._exit(0)
    os.waitpid(pid,0)
t=time.time()
for i in range(20): child()
print("avg memo forked", (time.time()-t)/20)
