import itertools, re, tempfile, os, io, contextlib, collections
from decaylanguage.modeling.goofit import GooFitChain, GooFitPyChain
from decaylanguage.modeling.decay import ModelDecay
from decaylanguage.utils.particleutils import particle_from_string_name as pf
# (a) list_structure exhaustive
GooFitChain.read_ampgen(text="EventType D0 K- pi+ pi+ pi-\nD0{K*(892)bar0{K-,pi+},rho(770)0{pi+,pi-}} 2 1 0 2 0 0\n")
P = {k: pf(k) for k in ['K-','pi+','pi-','K+','D0','rho(770)0']}
def trees(leaves):
    # all binary tree shapes over the leaf sequence (ordered), returned as nested lists
    if len(leaves)==1: yield leaves[0]; return
    for i in range(1,len(leaves)):
        for l in trees(leaves[:i]):
            for r in trees(leaves[i:]):
                yield [l,r]
def build(t):
    if isinstance(t,list): return ModelDecay(P['rho(770)0'], [build(x) for x in t])
    return ModelDecay(P[t])
def flat(t):
    if isinstance(t,list):
        for x in t: yield from flat(x)
    else: yield t
tot=bad=0
pats = {2:['aa','ab'],3:['aaa','aab','abc'],4:['aaaa','aaab','aabb','aabc','abcd']}
names={'a':'pi+','b':'K-','c':'pi-','d':'K+'}
for n,ps in pats.items():
    for pat in ps:
        for leafseq in set(itertools.permutations(pat)):
            for ev in set(itertools.permutations(pat)):
                for t in trees([names[c] for c in leafseq]):
                    top = ModelDecay(P['D0'], [build(x) for x in t]) if isinstance(t,list) else None
                    fs=[P[names[c]] for c in ev]
                    got=top.list_structure(fs)
                    leaves=[P[x] for x in flat(t)]
                    exp=[p for p in itertools.permutations(range(n)) if all(fs[p[i]]==leaves[i] for i in range(n))]
                    tot+=1
                    if sorted(got)!=sorted(exp) or len(got)!=len(set(got)): bad+=1; print("BAD",t,ev,got,exp)
print("list_structure", tot, bad)
