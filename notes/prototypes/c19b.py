import itertools, re, tempfile, os, io, contextlib, collections, sys
from decaylanguage.modeling.ampgen2goofit import ampgen2goofit, ampgen2goofitpy
V1="K*(892)bar0{K-,pi+}"; V2="rho(770)0{pi+,pi-}"; S1="KPi00{K-,pi+}"; S2="PiPi00{pi+,pi-}"
def tag(res, t):  # insert [t] after resonance name
    i=res.index('{'); return res[:i]+f"[{t}]"+res[i:]
structs = {
 'VV_S': f"D0{{{V1},{V2}}}", 'VV_P': f"D0[P]{{{V1},{V2}}}", 'VV_D': f"D0[D]{{{V1},{V2}}}",
 'VV_S_swapped': f"D0{{{V2},{V1}}}",
 'VS': f"D0{{{V1},{S2}}}", 'VS2': f"D0{{{V2},{S1}}}", 'SS': f"D0{{{S1},{S2}}}",
 'A_VP': f"D0{{K(1)(1270)bar-{{{V1},pi-}},pi+}}", 'A_VP_D': f"D0{{K(1)(1270)bar-[D]{{{V1},pi-}},pi+}}",
 'A_VP2': f"D0{{a(1)(1260)+{{{V2},pi+}},K-}}",
 'A_SP': f"D0{{a(1)(1260)+{{{S2},pi+}},K-}}", 'A_SP2': f"D0{{K(1)(1270)bar-{{{S1},pi-}},pi+}}",
 'T_VP': f"D0{{K(2)*(1430)bar-{{{V1},pi-}},pi+}}",
 's_SP': f"D0{{K(1460)bar-{{{S1},pi-}},pi+}}", 's_VP': f"D0{{K(1460)bar-{{{V1},pi-}},pi+}}",
 's_VP_K': f"D0{{K(1460)bar-{{{V2},K-}},pi+}}",
}
LS = ['', 'GSpline.EFF', 'kMatrix.pole.1', 'FOCUS.Kpi']
pars = """K*(892)bar0::Spline::Min 0.1
K*(892)bar0::Spline::Max 1.9
K*(892)bar0::Spline::N 4
K*(892)bar0::Spline::Gamma::0 2 0.1 0
K*(892)bar0::Spline::Gamma::1 2 0.2 0
f_scatt0 2 0.2 0
f_scatt1 2 0.1 0
IS_p1_pipi 2 0.2 0
IS_p1_KK 2 0.3 0
sA 2 1 0
s0_prod 2 -1 0
s0_scatt 2 -3 0
D0_radius 0 0.0037559 0.001
"""
def conv(txt):
    fd,n = tempfile.mkstemp(suffix='.opt'); os.write(fd, txt.encode()); os.close(fd)
    try:
        cpp = ampgen2goofit(n, ret_output=True); py = ampgen2goofitpy(n, ret_output=True)
    finally: os.unlink(n)
    return cpp, py
def parse_cpp(t):
    sf = re.findall(r'new SpinFactor\("SF", SF_4Body::(\w+)\s*, (\d), (\d), (\d), (\d)\)', t)
    ls = re.findall(r'new Lineshapes::(\w+)\("([^"]+)",(.*?)(M_\d\d(?:_\d)?), FF::BL2', t, re.S)
    n = re.findall(r'spin_factor_list.back\(\),\s*(\d+)\}\)', t)
    return sf, [(k,nm,m,re.findall(r', (\d+(?:\.\d+)?), $', a)) for k,nm,a,m in ls], n
def parse_py(t):
    sf = re.findall(r'SpinFactor\("SF", SF_4Body\.(\w+)\s*, (\d), (\d), (\d), (\d)\)', t)
    ls = re.findall(r'Lineshapes\.(\w+)\("([^"]+)",(.*?)(M_\d\d(?:_\d)?), FF\.BL2', t, re.S)
    n = re.findall(r'spin_factor_list\[-1\],\s*(\d+)\)\)', t)
    return sf, [(k,nm,m,re.findall(r', (\d+(?:\.\d+)?), $', a)) for k,nm,a,m in ls], n
for name, line in structs.items():
    for ev in ["D0 K- pi+ pi+ pi-", "D0 pi+ K- pi- pi+"]:
        txt = f"EventType {ev}\n{line} 0 0.5 0.1 0 2.0 0.2\n"
        try:
            cpp, py = conv(txt)
        except Exception as e:
            print(name, ev, "EXC", type(e).__name__, str(e)[:150]); continue
        a, b = parse_cpp(cpp), parse_py(py)
        print(name, ev, "agree" if a==b else "DISAGREE", a[0][:4], [(k,nm,m,L) for k,nm,m,L in a[1]], a[2])
        if a!=b: print("   PY:", b)
