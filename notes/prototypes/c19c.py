import re, sys
sys.path.insert(0,'.')
from decaylanguage.modeling.ampgen2goofit import ampgen2goofit, ampgen2goofitpy
f='/repo/models/DtoKpipipi_v2.txt'
cpp=ampgen2goofit(f,ret_output=True); py=ampgen2goofitpy(f,ret_output=True)
def num(x): return float(x)
# resonance vars
c_res=re.findall(r'Variable (\w+)\s*\{ ("[^"]+")\s*, ([^ ]+)\s*\};', cpp)
p_res=re.findall(r'^(\w+)\s*= Variable\(("[^"]+")\s*, ([^ ,)]+)\s*\)$', py, re.M)
# params
c_par=re.findall(r'^    Variable (\w+) \{("[^"]+"), ([^ ,}]+)(?:, ([^ }]+))? \};$', cpp, re.M)
p_par=re.findall(r'^(\w+) = Variable\(("[^"]+"), ([^ ,)]+)(?:, ([^ )]+) )?\)$', py, re.M)
c_const=re.findall(r'constexpr fptype (\w+)\s*\{ ([^ ]+)\s*\};', cpp)
p_const=re.findall(r'^([A-Z_0-9]+)\s+= ([0-9.e+-]+)\s*$', py, re.M)
print(len(c_res),len(p_res), sorted(c_res)==sorted(p_res))
print(len(c_par),len(p_par), sorted(c_par)==sorted(p_par))
print(len(c_const),len(p_const), sorted(c_const)==sorted(p_const))
c_amp=re.findall(r'new Amplitude\{\s*"([^"]+)",\s*mkvar\("([^"]+)", (\w+), ([^,]+), ([^)]+)\),\s*mkvar\("([^"]+)", (\w+), ([^,]+), ([^)]+)\),.*?(\d+)\}\);', cpp, re.S)
p_amp=re.findall(r'Amplitude\(\s*"([^"]+)",\s*Variable\("([^"]+)", ([^,)]+)(?:,([^,]+), 0\., 1000\.)?\),\s*Variable\("([^"]+)", ([^,)]+)(?:,([^,]+), 0\., 1000\.)?\),.*?(\d+)\)\)', py, re.S)
print(len(c_amp),len(p_amp))
ok=True
for c,p in zip(c_amp,p_amp):
    name,rn,rfix,rv,re_,in_,ifix,iv,ie,n=c
    pname,prn,prv,pre,pin,piv,pie,pn=p
    fixed = rfix=='true'
    if not (name==pname and rn==prn and in_==pin and rv==prv and iv==piv and n==pn and rn!=in_ and ((pre=='' )==fixed) and (fixed or (pre.strip()==re_.strip() and pie.strip()==ie.strip()))): ok=False; print("AMP DIFF",c,p)
print("amps agree",ok)
c_sf=re.findall(r'new SpinFactor\("SF", SF_4Body::(\w+)\s*, (\d), (\d), (\d), (\d)\)', cpp); p_sf=re.findall(r'SpinFactor\("SF", SF_4Body\.(\w+)\s*, (\d), (\d), (\d), (\d)\)', py)
print(len(c_sf), c_sf==p_sf)
c_ls=re.findall(r'new Lineshapes::(\w+)\("([^"]+)", (.*?)FF::BL2', cpp, re.S); p_ls=re.findall(r'Lineshapes\.(\w+)\("([^"]+)", (.*?)FF\.BL2', py, re.S)
norm=lambda s: re.sub(r'\s+',' ',s).replace('Lineshapes::FOCUS::Mod::','Lineshapes.FocusMod.').replace('true','True').replace('false','False')
print(len(c_ls), [ (a,b,norm(c)) for a,b,c in c_ls]==[(a,b,norm(c)) for a,b,c in p_ls])
for (a,b,c),(d,e,f_) in zip(c_ls,p_ls):
    if norm(c)!=norm(f_): print(norm(c),'|',norm(f_)); break
