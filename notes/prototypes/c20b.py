import os, sys, time, itertools, tempfile, pickle, re, io, contextlib
from decaylanguage.modeling import amplitudechain
from decaylanguage.modeling.amplitudechain import AmplitudeChain
from decaylanguage.modeling.goofit import GooFitChain, GooFitPyChain
from decaylanguage.modeling.ampgen2goofit import ampgen2goofit, ampgen2goofitpy
from particle import Particle
real = amplitudechain.particle_from_string_name
memo = {}
def cached(name):
    k=(name, len(Particle.all()))
    if k not in memo:
        try: memo[k]=(True, real(name))
        except Exception as e: memo[k]=(False, e)
    ok,v=memo[k]
    if ok: return v
    raise v
amplitudechain.particle_from_string_name = cached
V1="K*(892)bar0{K-,pi+}"; V2="rho(770)0{pi+,pi-}"
FILES={
 'A': f"EventType D0 K- pi+ pi+ pi-\nD0[P]{{{V1},{V2}}} 0 0.5 0.1 0 2.0 0.2\n",
 'B': f"EventType D0 K- pi+ pi+ pi-\nD0{{{V1},PiPi00[kMatrix.pole.1]{{pi+,pi-}}}} 0 0.7 0.1 0 1.0 0.2\nD0{{K(1460)bar-{{{V1},pi-}},pi+}} 2 1 0 2 0 0\nf_scatt0 2 0.2 0\nIS_p1_pipi 2 0.2 0\nsA 2 1 0\ns0_prod 2 -1 0\ns0_scatt 2 -3 0\nD0_radius 0 0.0037 0.001\n",
 'C': f"EventType D0 K- pi+ pi+ pi-\nFastCoherentSum::UseCartesian 1\nD0{{omega(782)0{{pi+,pi-}},{V1}}} 0 0.5 0.1 0 2.0 0.2\n",
 'D': f"EventType D0 K- pi+ pi+ pi-\na(1)(1260)+::Spline::Min 0.18\na(1)(1260)+::Spline::Max 1.9\na(1)(1260)+::Spline::N 4\nD0{{a(1)(1260)+[GSpline.EFF]{{{V2},pi+}},K-}} 0 0.5 0.1 0 2.0 0.2\na(1)(1260)+::Spline::Gamma::0 2 0.1 0\na(1)(1260)+::Spline::Gamma::1 2 0.2 0\n",
}
paths={}
for k,t in FILES.items():
    fd,n=tempfile.mkstemp(suffix='.opt'); os.write(fd,t.encode()); os.close(fd); paths[k]=n
VOC=['D0','K-','pi+','pi-','K*(892)bar0','rho(770)0','PiPi00','K(1460)bar-','omega(782)0','a(1)(1260)+']
def warm():
    for n in VOC:
        try: cached(n)
        except Exception: pass
warm()
special=os.path.join(os.path.dirname(amplitudechain.__file__),'..','data','MintDalitzSpecialParticles.csv')
Particle.load_table(special, append=True); warm(); Particle.load_table()
def sig(line):
    return (int(line.particle.pdgid), line.spinfactor, line.lineshape, line.amp, line.fix, [sig(d) for d in line.daughters] if line.daughters else None)
def canon_text(t):
    lines=[l.rstrip() for l in t.splitlines() if 'Generated on' not in l]
    return sorted(lines)   # crude: multiset of lines
def call(op):
    kind, who, f = op
    if kind=='read':
        cls={'A':AmplitudeChain,'G':GooFitChain,'P':GooFitPyChain}[who]
        r=cls.read_ampgen(paths[f])
        return ('read', [sig(l) for l in r[0]])
    fn={'cpp':ampgen2goofit,'py':ampgen2goofitpy}[who]
    return ('conv', canon_text(fn(paths[f], ret_output=True)))
def run(hist):
    r,w=os.pipe(); pid=os.fork()
    if pid==0:
        os.close(r)
        try:
            out=None
            for op in hist: out=call(op)
            data=pickle.dumps(('ok',out))
        except Exception as e:
            data=pickle.dumps(('exc',repr(e)))
        with os.fdopen(w,'wb') as fh: fh.write(data)
        os._exit(0)
    os.close(w)
    with os.fdopen(r,'rb') as fh: data=fh.read()
    os.waitpid(pid,0)
    return pickle.loads(data)
OPS=[('read',c,f) for c in 'AGP' for f in FILES]+[('conv',l,f) for l in ('cpp','py') for f in FILES]
t0=time.time()
ref={op:run((op,)) for op in OPS}
print("refs", time.time()-t0, [k for k,v in ref.items() if v[0]!='ok'])
bad=0; n=0
for a in OPS:
    for b in OPS:
        n+=1
        r=run((a,b))
        if r!=ref[b]:
            bad+=1
            if bad<=6:
                print("DIFF", a, b, r[0])
                if r[0]=='ok' and r[1][0]=='conv':
                    x=set(r[1][1])^set(ref[b][1][1]); print("   ", list(x)[:4])
print(n,bad,time.time()-t0)
for p in paths.values(): os.unlink(p)
