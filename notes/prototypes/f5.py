import sys, types, re
src = open(sys.argv[1]).read()
class Rec:
    def __init__(self, name): object.__setattr__(self,'_n',name)
    def __getattr__(self, k):
        if k.startswith('__'): raise AttributeError(k)
        return Rec(self._n + '.' + k)
    def __setattr__(self,k,v): object.__setattr__(self,k,v)
    def __call__(self, *a, **k): return Rec(self._n+'()')
    def __repr__(self): return f"<{self._n}>"
m = types.ModuleType('goofit')
names = ['Variable','DecayInfo4','Lineshapes','FF','SpinFactor','SF_4Body','Amplitude'] + ['M_12','M_34','M_13','M_14','M_23','M_24'] + [f'M_{a}{b}_{c}' for a in '1234' for b in '1234' for c in '1234']
for n in names: setattr(m, n, Rec(n))
m.__all__ = names
sys.modules['goofit'] = m
missing = []
while True:
    ns = {nm: Rec(nm) for nm in missing}
    try:
        exec(compile(src, 'out', 'exec'), ns); break
    except NameError as e:
        nm = re.search(r"name '(\w+)'", str(e)).group(1)
        missing.append(nm)
print("missing:", missing)
