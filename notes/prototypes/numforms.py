import warnings, itertools
warnings.simplefilter("ignore")
from decaylanguage import DecFileParser
forms=[]
for s in ["","+","-"]:
    for m in ["1","12","1.","1.5",".5","1.25"]:
        for e in ["","e2","E2","e+2","e-2","E+12"]:
            forms.append(s+m+e)
print(len(forms))
txt=[]; 
for i,f in enumerate(forms):
    txt.append(f"Define d{i} {f}\nParticle p{i} {f} {f}\nBlattWeisskopf b{i} {f}\nChangeMassMax c{i} {f}\nPythiaBothParam M:p{i}={f}\nJetSetPar PARU({i})={f}\nDecay M{i}\n{f} A B SVS {f} w {f};\nEnddecay\n")
p=DecFileParser.from_string("".join(txt)); p.parse()
df=p.dict_definitions(); pp=p.get_particle_property_definitions(); ls=p.dict_lineshape_settings(); py=p.dict_pythia_definitions()['PythiaBothParam']; js=p.dict_jetset_definitions()['PARU']
bad=[]
for i,f in enumerate(forms):
    v=float(f)
    try: jv=int(f)
    except ValueError: jv=float(f)
    d=[dict(p._decay_mode_details(x)) for x in p._find_decay_modes(f"M{i}")]
    ok = df[f"d{i}"]==v and pp[f"p{i}"]=={'mass':v,'width':v} and ls[f"b{i}"]=={'BlattWeisskopf':v} and ls[f"c{i}"]=={'ChangeMassMax':v} and py[f"M:p{i}"]==v and js[i]==jv and type(js[i]) is type(jv) and d==[{'bf':v,'fs':['A','B'],'model':'SVS','model_params':[v,'w',v]}]
    if not ok: bad.append((f, df.get(f"d{i}"), js.get(i), d))
print(len(bad), bad[:5])
