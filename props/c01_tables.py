"""C01 — decay tables read from a .dec file are exactly what the file states (E2; see DESIGN.md C01)."""
from __future__ import annotations

import itertools
import string

from mc import dbe
from mc.core import pmap, short_hash, run_tasks
from props.deccommon import MODELS, check_ast, check_pack
from ref import decmodel

MOTHERS = ["A0", "B+", "C*-"]
OTHERS = [
    ["Alias", "MyQ", "Q0"],
    ["Define", "dq", "0.25"],
    ["CDecay", "anti-Zq"],
    ["Photos", "yes"],
    ["CopyDecay", "Zcopy", "A0"],
    ["ChargeConj", "MyQ", "MyQbar"],
    ["ModelAlias", "MAq", "SVS", None],
    ["Particle", "Qp", "1.5", "0.1"],
    ["JetSetPar", "PARJ(21)", "0.36"],
    ["Raw", "# a comment line with Decay A0 and Enddecay in it"],
]
DAUGHTERS = ["K-", "pi+", "pi0", "D*(2010)+", "anti-nu_e", "f'_0", "K_S0", "a_1(1260)+"]
PARAM_VARIANTS = [
    None,
    ["1.0"],
    ["0.5", "w"],
    ["dv", "-dv", "3"],
    ["word", "-0.8", "+3", "20.e12", "2E-4", ".5"],
    ["-undefined", "x1", "dv"],
    ["1", "2.", "ev", "-ev", "dv", "-dv"],
    ["a", "b", "c", "d", "e", "f", "g", "h"],
]
LETTERS, DIGITS, PUNCT = string.ascii_letters, string.digits, "/-+*_().'~"


# ----------------------------------------------------------------------------------------------
# part A: block structure, complete enumeration
def structure_cases(maxlen):
    for n in range(0, maxlen + 1):
        for seq in itertools.product(range(3), repeat=n):
            for counts in itertools.product(range(3), repeat=n):
                yield {"seq": list(seq), "counts": list(counts), "other": None}


def structure_long_cases(minlen, maxlen):
    """Longer block sequences with one fixed assignment of line counts (every block still identifiable by its bf)."""
    for n in range(minlen, maxlen + 1):
        for seq in itertools.product(range(3), repeat=n):
            yield {"seq": list(seq), "counts": [(i + seq[i]) % 3 for i in range(n)], "other": None}


def structure_other_cases(maxlen):
    for n in range(0, maxlen + 1):
        for seq in itertools.product(range(3), repeat=n):
            for gap in range(n + 1):
                for o in range(len(OTHERS)):
                    yield {"seq": list(seq), "counts": [1 + (i % 2) for i in range(n)], "other": [gap, o]}


def structure_ast(case, rot=0):
    ast = []
    for bi, (mi, cnt) in enumerate(zip(case["seq"], case["counts"])):
        lines = []
        for li in range(cnt):
            ds = [DAUGHTERS[(bi + li + rot) % len(DAUGHTERS)], DAUGHTERS[(bi * 2 + li + 1 + rot) % len(DAUGHTERS)]]
            lines.append([f"0.{bi+1}{li+1}", ds, (bi + li) % 2, MODELS[(7 * bi + li + rot) % len(MODELS)], ["1.0", "w"] if li else None])
        ast.append(["Decay", MOTHERS[(mi + rot) % 3], lines])
    if case["other"]:
        gap, o = case["other"]
        ast.insert(gap, OTHERS[o])
    return ast


# ----------------------------------------------------------------------------------------------
# part B: line content, deviation-bounded
def make_content_gen(model_domain):
    def gen(c, tag="T"):
        nlines = c.choose("nlines", [1, 2, 3, 4, 5, 8])
        define_pos = c.choose("define_pos", ["before", "after", "both"])
        dup = c.choose("repeat_line_verbatim", [None, "first-at-end", "first-twice"])
        lines = []
        used = set()
        for i in range(nlines):
            nd = c.choose(f"nd{i}", [2, 0, 1, 3, 4, 7])
            ph = c.choose(f"photos{i}", [0, 1])
            model = c.choose(f"model{i}", model_domain)
            pv = c.choose(f"params{i}", list(range(len(PARAM_VARIANTS))))
            params = PARAM_VARIANTS[pv]
            if params:
                params = [w + tag if w.lstrip("-") in ("dv", "ev") else w for w in params]
                used.update(w.lstrip("-") for w in params if w.lstrip("-")[:2] in ("dv", "ev") and w.endswith(tag))
            ds = [DAUGHTERS[(i + k) % len(DAUGHTERS)] for k in range(nd)]
            lines.append([f"0.{i+1}{nd}", ds, ph, model, params])
        if dup:
            lines = lines + [list(lines[0])] * (1 if dup == "first-at-end" else 2)
        ast = []
        defs = [["Define", n, "0.507e12" if n.startswith("ev") else "-1.5"] for n in sorted(used)]
        if define_pos in ("before", "both"):
            ast += defs
        ast.append(["Decay", "M" + tag, lines])
        if define_pos == "after":
            ast += defs
        if define_pos == "both":
            ast += [["Define", d[1], "7.25"] for d in defs]  # redefinition: later wins
        return ast

    return gen


def photos_pattern_cases():
    for n in range(1, 5):
        for mask in range(2 ** n):
            yield {"n": n, "mask": mask}


def photos_ast(case, tag):
    lines = [[f"0.{i+1}", ["K-", "pi+"][: 1 + i % 2], (case["mask"] >> i) & 1, "PHSP" if i % 2 else "SVS", None] for i in range(case["n"])]
    return [["Decay", "P" + tag, lines]]


# ----------------------------------------------------------------------------------------------
# part C: label alphabet
def labels():
    out = []
    for ch in LETTERS + DIGITS + PUNCT:
        out += ["Q" + ch + "q", "Q" + ch, ch + "q"]
    for a in PUNCT:
        for b in PUNCT:
            out.append("Q" + a + b + "q")
    # words that a careless conversion would take for a number or a constant (float("inf"), float("-Infinity"),
    # float("nan"), eval("True")); in the grammar they are plain labels
    out += ["inf", "nan", "Infinity", "NaN", "INF", "-inf", "+INF", "-Infinity", "infinity", "True", "False", "None", "e5", "E-3", "-e2", "+.e1"]
    # the word that ends a file, as (part of) a name
    out += ["End", "My-End", "End(2S)", "D*End", "End_x", "Enddecays"]
    return list(dict.fromkeys(out))


def label_ast(label, tag):
    # a word that starts with a digit is read as a number wherever the grammar may expect one: directly after
    # the branching fraction and inside a parameter list (excluded roles, see DESIGN.md C01)
    digit_start = label[0] in DIGITS
    params = ["1.0", "w"] if digit_start else [label, "1.0", label]
    return [
        ["Decay", label if tag is None else label + tag, [
            ["1.0", ["X", label, label] if digit_start else [label, "X", label], 0, "SVS", params],
            ["0.5", ["Y", label] if digit_start else [label], 1, "PHSP", None],
            ["0.25", ["X", label], 0, "VSS", None],
        ]],
    ]


def label_define_ast(label, tag):
    """The label as the name of a Define'd parameter, used plain and negated (names that start with a digit, sign or
    dot cannot be told from numbers / negated uses and are left out)."""
    if label[0] in DIGITS + "+-.":
        return None
    name = label + (tag or "")
    return [["Define", name, "0.25"],
            ["Decay", "Dm" + (tag or "") if tag else "Dm", [["1.0", ["X", "Y"], 0, "SVS", [name, "0.1", "-" + name, "w"]]]]]


# part D: numeric literal forms
def numeric_forms():
    return [s + m + e for s in ["", "+", "-"] for m in ["1", "12", "1.", "1.5", ".5", "1.25"] for e in ["", "e2", "E2", "e+2", "e-2", "E+12"]]


def numeric_ast(form, tag):
    return [["Decay", "N" + tag, [[form, ["A", "B"], 0, "SVS", [form, "w", form]], [form, [], 1, "PHSP", None]]]]


# ----------------------------------------------------------------------------------------------
def _single(ast):
    return check_ast(ast, check_print=True)


def work_unpacked(items):
    fails, outs = [], set()
    for kind, case, ast in items:
        f = _single(ast)
        for sig, d in f:
            fails.append(("ast", {"ast": ast, "origin": [kind, case]}, sig, d, len(decmodel.render(ast))))
        outs.add(short_hash(decmodel.semantics(ast)["tables"]) if not f else "F")
    return {"fails": fails, "outcomes": outs, "traces": len(items)}


def work_packed(items):
    """items: list of (kind, case, ast) with pairwise disjoint names; one parse for all of them."""
    fails, outs = [], set()
    res = check_pack([a for _k, _c, a in items], check_print=True)
    for idx, sig, d in res:
        if idx is None:
            big = [st for _k, _c, a in items for st in a]
            fails.append(("ast", {"ast": big, "origin": ["pack", len(items)]}, sig + "@pack", d, 10 ** 6))
        else:
            k, c, a = items[idx]
            fails.append(("ast", {"ast": a, "origin": [k, c]}, sig, d, len(decmodel.render(a))))
    for _k, _c, a in items:
        outs.add(short_hash(decmodel.semantics(a)["tables"]))
    return {"fails": fails, "outcomes": outs, "traces": len(items)}


def exec_case(kind, payload):
    return check_ast(payload["ast"], check_print=True)


def chunks(lst, n):
    return [lst[i:i + n] for i in range(0, len(lst), n)]


def run(ctx):
    rot = ctx.seed % 3
    # A: structure
    maxlen = 4 if ctx.thorough else 3
    A = [("structure", c, structure_ast(c, rot)) for c in structure_cases(maxlen)]
    A += [("structure+other", c, structure_ast(c, rot)) for c in structure_other_cases(3 if ctx.thorough else 2)]
    A += [("structure-long", c, structure_ast(c, rot)) for c in structure_long_cases(maxlen + 1, 6 if ctx.thorough else 5)]
    ctx.log(f"A: {len(A)} unpacked structure files")
    run_tasks(ctx, work_unpacked, chunks(A, 40))
    ctx.count(states=len(A), transitions=sum(len(a) for _k, _c, a in A))
    ctx.part("A-structure", files=len(A), max_blocks=maxlen, complete=True)
    ctx.sample({"part": "A", "case": A[len(A) // 2][1], "text": decmodel.render(A[len(A) // 2][2])})

    # B: content (packed, plus every <=1-deviation scenario unpacked)
    stats = {}
    items, small = [], []
    bound = 2
    gen = make_content_gen(["PHSP"] + [m for m in MODELS if m != "PHSP"])
    n = 0
    for choices, ndev, _sc in dbe.explore(gen, bound, stats):
        tag = f"_{n}"
        n += 1
        ast = dbe.replay(lambda c, tag=tag: gen(c, tag), choices)
        items.append(("content", list(choices), ast))
        if ndev <= 1:
            small.append(("content", list(choices), dbe.replay(gen, choices)))
    if ctx.thorough:
        gen3 = make_content_gen(["PHSP", "SVS", "VSS_BMIX", "HELAMP", "BTOXSGAMMA", "PYTHIA"])
        for choices, ndev, _sc in dbe.explore(gen3, 3, stats):
            if ndev < 3:
                continue
            tag = f"_{n}"
            n += 1
            items.append(("content3", list(choices), dbe.replay(lambda c, tag=tag: gen3(c, tag), choices)))
    for i, case in enumerate(photos_pattern_cases()):
        items.append(("photos-pattern", case, photos_ast(case, f"_{i}")))
        small.append(("photos-pattern", case, photos_ast(case, "")))
    ctx.log(f"B: {len(items)} packed content scenarios, {len(small)} also unpacked")
    ctx.rng.shuffle(items)
    run_tasks(ctx, work_packed, chunks(items, 50))
    run_tasks(ctx, work_unpacked, chunks(small, 40))
    ctx.count(states=stats["nodes"], transitions=stats["choices"])
    ctx.part("B-content", scenarios=len(items), unpacked=len(small), deviation_bound=3 if ctx.thorough else 2,
             per_dimension_max=stats["per_dimension_max"], models=len(MODELS))
    ctx.sample({"part": "B", "choices": items[0][1], "text": decmodel.render(items[0][2])})

    # C: label alphabet (complete)
    labs = labels()
    C = [("label", lab, label_ast(lab, f"_{i}")) for i, lab in enumerate(labs)]
    run_tasks(ctx, work_packed, chunks(C, 60))
    Cs = [("label", lab, label_ast(lab, None)) for lab in labs if len(lab) == 2 or ctx.thorough]
    run_tasks(ctx, work_unpacked, chunks(Cs, 40))
    CD = [("label-as-define", lab, label_define_ast(lab, f"_{i}")) for i, lab in enumerate(labs) if label_define_ast(lab, f"_{i}")]
    run_tasks(ctx, work_packed, chunks(CD, 60))
    run_tasks(ctx, work_unpacked, chunks([("label-as-define", lab, label_define_ast(lab, None)) for lab in labs if label_define_ast(lab, None)], 40))
    ctx.count(states=len(C) + len(CD), transitions=3 * len(C) + 2 * len(CD))
    ctx.part("C-labels", labels=len(labs), unpacked=len(Cs), complete=True)
    ctx.sample({"part": "C", "label": labs[300], "text": decmodel.render(C[300][2])})

    # D: numeric literal forms (complete)
    forms = numeric_forms()
    D = [("numeric", f, numeric_ast(f, f"_{i}")) for i, f in enumerate(forms)]
    run_tasks(ctx, work_packed, chunks(D, 54))
    run_tasks(ctx, work_unpacked, chunks([("numeric", f, numeric_ast(f, "")) for f in forms], 27))
    ctx.count(states=len(D), transitions=len(D))
    ctx.part("D-numeric", forms=len(forms), complete=True)
    ctx.extra["bound_completed"] = {"block_sequences_up_to": maxlen, "content_deviations": 3 if ctx.thorough else 2}
    ctx.extra["excluded"] = ["parameter words / daughters equal to a model name or model name + non-word character",
                             "parameter words with a leading digit, sign or dot that are not numbers",
                             "text without a final newline"]
