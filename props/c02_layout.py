"""C02 — layout, comments, line ends and file packaging never change what is parsed (E2, differential; DESIGN.md C02).

A base input (generated kitchen-sink files, every parseable fixture under tests/data, the two shipped master files)
is rewritten by semantics-preserving edits E1..E13 at positions found by a small independent line tokenizer; the
canonical snapshot of every public query must not change.
"""
from __future__ import annotations

import glob
import os
import re
import tempfile

from mc import decobs
from mc.core import pmap, short_hash, run_tasks
from props.deccommon import MODELS
from ref import decmodel

MODELSET = set(MODELS)
BLANKS = re.compile(r"[ \t]+")

# ------------------------------------------------------------------------------------------------
KITCHEN = [
    [
        ["Raw", "# kitchen-sink file 0"],
        ["Photos", "no"],
        ["Alias", "MyB0", "B0"], ["Alias", "MyAntiB0", "anti-B0"], ["ChargeConj", "MyB0", "MyAntiB0"],
        ["Define", "dm", "0.507e12"], ["Define", "minusOne", "-1"],
        ["ModelAlias", "MA_hel", "HELAMP", ["1.0", "0.0", "dm", "-minusOne"]],
        ["Particle", "rho0", "0.77", "0.15"], ["Particle", "MyB0", "5.28", None],
        ["Pythia", "PythiaBothParam", "ParticleDecays", "mixB", "off"], ["Pythia", "PythiaAliasParam", "A", "b", "1.5"],
        ["JetSetPar", "PARJ(21)", "0.36"], ["JetSetPar", "MSTU(1)", "0"],
        ["LS", "LSNONRELBW", "rho0"], ["BlattWeisskopf", "rho0", "3.0"], ["ChangeMass", "ChangeMassMin", "rho0", "0.3"],
        ["IncFactor", "IncludeBirthFactor", "rho0", "no"], ["SetLineshapePW", "D_1+", "D*+", "pi0", "2"],
        ["Decay", "MyB0", [
            ["0.5", ["D*(2010)-", "pi+", "pi0"], 1, "SVS", None],
            ["0.25", ["D-", "rho+"], 0, "SVV_HELAMP", ["1.0", "0.0", "1.0", "0.0", "1.0", "0.0"]],
            ["0.125", ["D-", "gamma"], 0, "MA_hel", None],
            ["1.0e-3", [], 0, "PYTHIA", ["42"]],
            ["2E-4", ["K_S0", "f'_0", "anti-nu_e"], 1, "VSS_BMIX", ["dm", "-dm", "w"]],
        ]],
        ["CDecay", "MyAntiB0"],
        ["Decay", "rho0", []],
        ["Decay", "D-", [["1.", ["K+", "pi-", "pi-"], 0, "D_DALITZ", None]]],
        ["CopyDecay", "MyD-", "D-"],
        ["CDecay", "D+"],
        ["Decay", "D-", [["0.5", ["e-", "anti-nu_e"], 0, "PHSP", None]]],
        ["Photos", "yes"],
        ["End"],
    ],
    [
        ["Define", "x", "+.5"],
        ["Decay", "Upsilon(4S)", [["0.5", ["B0", "anti-B0"], 0, "VSS_BMIX", ["x"]], ["0.5", ["B+", "B-"], 1, "VSS", None]]],
        ["Alias", "a_1(1260)+sig", "a_1(1260)+"],
        ["Decay", "B0", [["1", ["a_1(1260)+sig", "D-"], 0, "SVS", None]]],
        ["Decay", "a_1(1260)+sig", [["0.6", ["rho0", "pi+"], 0, "VVS_PWAVE", ["0.9788", "0.0", "0.0", "0.0", "-0.2047", "0.0"]],
                                    ["0.4", ["pi+", "pi+", "pi-"], 0, "PHSP", None]]],
    ],
]


def kitchen_text(i):
    return decmodel.render(KITCHEN[i])


def fixture_files(repo):
    out = []
    for f in sorted(glob.glob(os.path.join(repo, "tests/data/**/*.dec"), recursive=True)):
        if "issue90" in f or "custom_decay" in f:
            continue
        out.append(os.path.relpath(f, repo))
    return out


MASTERS = ["src/decaylanguage/data/DECAY_LHCB.DEC", "src/decaylanguage/data/DECAY_BELLE2.DEC"]
REPO = os.environ.get("VERIF_REPO", "/repo")


def load_base(base_id):
    if isinstance(base_id, int):
        text = kitchen_text(base_id)
    else:
        with open(os.path.join(REPO, base_id), encoding="utf8") as f:
            text = f.read()
        text = text.lstrip("﻿")
    if not text.endswith("\n"):
        text += "\n"
    return text


def split_lines(text):
    return text.split("\n")[:-1]


# ------------------------------------------------------------------------------------------------
# independent line tokenizer
def code_part(line):
    i = line.find("#")
    return (line, "") if i < 0 else (line[:i], line[i:])


def gaps(line):
    """(start, end) of every run of blanks between two tokens of the code part."""
    code, _c = code_part(line)
    out = []
    for m in BLANKS.finditer(code):
        if code[: m.start()].strip() and code[m.end():].strip():
            out.append((m.start(), m.end()))
    return out


def is_number(tok):
    return bool(decmodel.NUM_RE.match(tok))


def param_gaps(line):
    """Gaps (start, end) inside the parameter list of a one-physical-line decay line or ModelAlias statement:
    after the model name, between items, and directly before the terminating semicolon (possibly zero width)."""
    code, _c = code_part(line)
    stripped = code.rstrip()
    if not stripped.endswith(";"):
        return []
    toks = [(m.group(0), m.start(), m.end()) for m in re.finditer(r"[^ \t;,]+|;|,", code)]
    if not toks or "," in [t[0] for t in toks]:
        return []
    words = [t for t in toks if t[0] != ";"]
    if not words:
        return []
    if is_number(words[0][0]):
        cand = words[1:]
    elif words[0][0] == "ModelAlias" and len(words) >= 3:
        cand = words[2:]
    else:
        return []
    mi = None
    for k, w in enumerate(cand):
        if w[0] in MODELSET:
            mi = k
            break
    if mi is None or mi == len(cand) - 1:
        return []  # no model found, or empty parameter list
    seq = cand[mi:]
    first_semi = next(t for t in toks if t[0] == ";")
    out = []
    for a, b in zip(seq, seq[1:]):
        out.append((a[2], b[1]))
    out.append((seq[-1][2], first_semi[1]))
    return out


def semicolons(line):
    code, _c = code_part(line)
    return [m.start() for m in re.finditer(";", code)]


# ------------------------------------------------------------------------------------------------
E1_TEXT = ["  # c", " # x ; End Enddecay Decay", "#"]
E2_TEXT = [[""], ["", "   \t"]]
E3_TEXT = ["# Enddecay ; x", "   # End", "#"]
E7_TEXT = ["\n", "\n      ", " # wrapped\n  "]
E8_TEXT = [",", ", ", " ,", " , "]
E9_TEXT = [";;", "; ;", ";\t;;"]
LINE_EDITS = ("E1", "E4", "E5", "E6", "E7", "E8", "E9")


def spans_of(line, e):
    """Replacement spans (start, end, text) of a within-line edit, computed on the ORIGINAL line."""
    k = e[0]
    if k == "E5":
        s, t = gaps(line)[e[2]]
        return [(s, t, "   \t ")]
    if k == "E7":
        s, t = param_gaps(line)[e[2]]
        return [(s, t, E7_TEXT[e[3]])]
    if k == "E8":
        s, t = param_gaps(line)[e[2]]
        return [(s, t, E8_TEXT[e[3]])]
    if k == "E9":
        return [(p, p + 1, E9_TEXT[e[2]]) for p in semicolons(line)]
    return []


def conflict(line, a, b):
    sa, sb = spans_of(line, a), spans_of(line, b)
    for x in sa:
        for y in sb:
            if x[0] < y[1] and y[0] < x[1] or (x[0], x[1]) == (y[0], y[1]):
                return True
    return False


def edit_line(line, edits):
    spans = [sp for e in edits for sp in spans_of(line, e)]
    for s, t, txt in sorted(spans, key=lambda x: (x[0], x[1]), reverse=True):
        line = line[:s] + txt + line[t:]
    for e in edits:
        if e[0] == "E4":
            line = ["\t  " + line, line + " \t", "   " + line + "  "][e[2]]
    for e in edits:
        if e[0] == "E1":
            line = line + E1_TEXT[e[2]]
    for e in edits:
        if e[0] == "E6":
            line = line + "\r"
    return line


def apply_edits(L, edits):
    """Positional edits; all offsets refer to the original lines."""
    by_line, inserts = {}, {}
    for e in edits:
        if e[0] in ("E2", "E3"):
            inserts.setdefault(e[1], []).append(e)
        else:
            by_line.setdefault(e[1], []).append(e)
    out = []
    for i in range(len(L) + 1):
        for e in inserts.get(i, []):
            out += E2_TEXT[e[2]] if e[0] == "E2" else [E3_TEXT[e[2]]]
        if i < len(L):
            out.append(edit_line(L[i], by_line[i]) if i in by_line else L[i])
    return out


def apply_edit(L, e):
    return apply_edits(L, [e])


def line_positions(L, variants_all=True):
    """Every single positional edit applicable to this file."""
    out = []
    n = len(L)
    for i in range(n):
        for v in (range(len(E1_TEXT)) if variants_all else [1]):   # variant 1 is the nasty text ('End', ';', 'Decay' in the comment)
            out.append(["E1", i, v])
        for v in range(3 if variants_all else 1):
            out.append(["E4", i, v])
        for g in range(len(gaps(L[i]))):
            out.append(["E5", i, g])
        out.append(["E6", i])
        pg = param_gaps(L[i])
        for g in range(len(pg)):
            for v in range(len(E7_TEXT) if variants_all else 1):
                out.append(["E7", i, g, v])
            for v in range(len(E8_TEXT) if variants_all else 1):
                out.append(["E8", i, g, v])
        if semicolons(L[i]):
            for v in range(len(E9_TEXT) if variants_all else 1):
                out.append(["E9", i, v])
    for i in range(n + 1):
        for v in range(len(E2_TEXT) if variants_all else 1):
            out.append(["E2", i, v])
        for v in range(len(E3_TEXT) if variants_all else 1):
            out.append(["E3", i, v])
    return out


def text_of(L):
    return "\n".join(L) + "\n"


# ------------------------------------------------------------------------------------------------
def snap_string(text, expand):
    p = decobs.parse_text(text)
    return decobs.full_snapshot(p, expand=expand)


def snap_files(contents, expand, binary_prefix=b""):
    names = []
    try:
        for j, c in enumerate(contents):
            fd, n = tempfile.mkstemp(suffix=".dec", prefix="c02_")
            with os.fdopen(fd, "wb") as f:
                f.write((binary_prefix if j == 0 else b"") + c.encode("utf8"))
            names.append(n)
        p = decobs.parse_files(names)
        return decobs.full_snapshot(p, expand=expand)
    finally:
        for n in names:
            os.unlink(n)


_BASE_CACHE = {}


def base_of(base_id):
    if not isinstance(base_id, int) and not isinstance(base_id, str):
        base_id = tuple(base_id)
    if base_id not in _BASE_CACHE:
        text = load_base(base_id)
        expand = isinstance(base_id, int)
        _BASE_CACHE[base_id] = (text, split_lines(text), expand, snap_string(text, expand))
    return _BASE_CACHE[base_id]


def first_diff(a, b):
    for k in a:
        if a[k] != b.get(k):
            if isinstance(a[k], dict) and isinstance(b.get(k), dict):
                for m in a[k]:
                    if a[k][m] != b[k].get(m):
                        return f"{k}[{m}]: base {str(a[k][m])[:200]} vs rewritten {str(b[k].get(m))[:200]}"
            return f"{k}: base {str(a[k])[:200]} vs rewritten {str(b.get(k))[:200]}"
    return "?"


END_VARIANTS = [None, "End", "  End # x", "End\n\n# trailing comment\n"]


def run_rewrite(base_id, rw):
    """rw = {"edits": [...], optional "mode": "string"|"file"|"bom"|"crlf"|"split", "cuts": [...], "ends": [...],
    "final_end": variant}.  Returns None when the snapshot equals the base snapshot, else (sig, detail)."""
    text, L, expand, ref = base_of(base_id)
    L2 = apply_edits(L, rw.get("edits", []))
    mode = rw.get("mode", "string")
    kinds = "+".join(sorted({e[0] for e in rw.get("edits", [])}) + ([mode] if mode != "string" else []))
    try:
        if "final_end" in rw:
            body = [ln for ln in L2]
            while body and (not body[-1].strip() or body[-1].lstrip().startswith("#")):
                body.pop()
            if body and code_part(body[-1])[0].strip() == "End":
                body.pop()
            fe = rw["final_end"]
            t2 = text_of(body) + {0: "", 1: "End\n", 2: "  End  # the end\n", 3: "End\n\n# trailing\n   \n", 4: "End # c\n\n"}[fe]
            L2 = split_lines(t2)
        if mode == "string":
            got = snap_string(text_of(L2), expand)
        elif mode == "crlf":
            got = snap_string("\r\n".join(L2) + "\r\n", expand)
        elif mode == "crlf-file":
            got = snap_files(["\r\n".join(L2) + "\r\n"], expand)
        elif mode == "file":
            got = snap_files([text_of(L2)], expand)
        elif mode == "bom":
            got = snap_files([text_of(L2)], expand, binary_prefix=b"\xef\xbb\xbf")
        elif mode == "split":
            cuts = [0] + list(rw["cuts"]) + [len(L2)]
            pieces = []
            for j, (a, b) in enumerate(zip(cuts, cuts[1:])):
                piece = text_of(L2[a:b]) if b > a else ""
                if j < len(cuts) - 2 and piece and code_part(L2[b - 1])[0].strip() == "End":
                    pass
                end = END_VARIANTS[rw.get("ends", [0] * (len(cuts) - 1))[j]]
                if end:
                    piece += end + "\n"
                if rw.get("no_final_newline") and piece.endswith("\n") and not end:
                    piece = piece[:-1]
                pieces.append(piece)
            got = snap_files(pieces, expand)
        else:
            raise ValueError(mode)
    except Exception as e:  # noqa: BLE001
        return (f"rewrite-rejected:{kinds}:{type(e).__name__}", f"base {base_id}, rewrite {rw}: {type(e).__name__}: {str(e)[:300]}")
    if got != ref:
        return (f"snapshot-differs:{kinds}", f"base {base_id}, rewrite {rw}: {first_diff(ref, got)}")
    return None


def exec_case(kind, payload):
    try:
        base_of(payload["base"])
    except Exception as e:  # noqa: BLE001
        return [(f"base-rejected:{type(e).__name__}", str(e)[:300])]
    r = run_rewrite(payload["base"], payload["rewrite"])
    return [r] if r else []


def work(task):
    base_id, rws = task
    fails = []
    outs = set()
    try:
        base_of(base_id)
    except Exception as e:  # noqa: BLE001
        return {"fails": [("rewrite", {"base": base_id, "rewrite": {}}, f"base-rejected:{type(e).__name__}",
                           f"the unmodified base input {base_id} is rejected: {type(e).__name__}: {str(e)[:300]}", 0)],
                "outcomes": set(), "traces": 0}
    for rw, weight in rws:
        r = run_rewrite(base_id, rw)
        if r:
            if len(rw.get("edits", [])) > 2:
                rw = bisect(base_id, rw)
                r = run_rewrite(base_id, rw) or r
            fails.append(("rewrite", {"base": base_id, "rewrite": rw}, r[0], r[1], weight))
        outs.add(short_hash([base_id if isinstance(base_id, int) else "f", rw.get("mode"), sorted({e[0] for e in rw.get("edits", [])})]))
    return {"fails": fails, "outcomes": outs, "traces": len(rws)}


def bisect(base_id, rw):
    """Reduce a failing composite of positional edits to a small failing subset (assumes few culprits)."""
    edits = list(rw["edits"])
    while len(edits) > 1:
        half = len(edits) // 2
        a, b = edits[:half], edits[half:]
        if run_rewrite(base_id, dict(rw, edits=a)):
            edits = a
        elif run_rewrite(base_id, dict(rw, edits=b)):
            edits = b
        else:
            break
    return dict(rw, edits=edits)


# ------------------------------------------------------------------------------------------------
def tasks_single(base_id, variants_all, per_task=40):
    L = split_lines(load_base(base_id))
    pos = line_positions(L, variants_all)
    rws = [({"edits": [e]}, 1) for e in pos]
    # the file constructor filters physical lines before the grammar sees them: line-level edits also through files
    rws += [({"edits": [e], "mode": "file"}, 2) for e in pos if e[0] in ("E1", "E3", "E4")]
    rws += [({"mode": m}, 1) for m in ("file", "crlf", "crlf-file", "bom")]
    rws += [({"final_end": v}, 1) for v in range(5)] + [({"final_end": v, "mode": "file"}, 1) for v in range(5)]
    n = len(L)
    for cut in range(0, n + 1):
        rws.append(({"mode": "split", "cuts": [cut], "ends": [1 + cut % 3, 0]}, 1))
        if variants_all:
            rws.append(({"mode": "split", "cuts": [cut], "ends": [0, 0]}, 1))
            rws.append(({"mode": "split", "cuts": [cut], "ends": [0, 2], "no_final_newline": True}, 1))
    return [(base_id, rws[i:i + per_task]) for i in range(0, len(rws), per_task)], len(rws)


def tasks_pairs(base_id, per_task=40):
    """Every pair of single-variant edits at the same or adjacent physical lines (interaction is local)."""
    L = split_lines(load_base(base_id))
    pos = line_positions(L, variants_all=False)
    by_line = {}
    for e in pos:
        by_line.setdefault(e[1], []).append(e)
    rws = []
    for i in sorted(by_line):
        here = by_line[i]
        nxt = by_line.get(i + 1, [])
        for a_i, a in enumerate(here):
            for b in here[a_i + 1:]:
                if a[0] == b[0] and a[0] in ("E1", "E4", "E6", "E9"):
                    continue
                if a[0] not in ("E2", "E3") and b[0] not in ("E2", "E3") and conflict(L[i], a, b):
                    continue  # two rewrites of the same gap
                rws.append(({"edits": [a, b]}, 2))
            for b in nxt:
                rws.append(({"edits": [a, b]}, 2))
    return [(base_id, rws[i:i + per_task]) for i in range(0, len(rws), per_task)], len(rws)


def tasks_split3(base_id, per_task=40):
    L = split_lines(load_base(base_id))
    n = len(L)
    rws = []
    for a in range(0, n + 1):
        for b in range(a, n + 1):
            rws.append(({"mode": "split", "cuts": [a, b], "ends": [(a + b) % 4, (a * 2 + b) % 4, b % 3]}, 2))
    return [(base_id, rws[i:i + per_task]) for i in range(0, len(rws), per_task)], len(rws)


def tasks_master(base_id, kinds):
    """Each edit kind applied at all positions at once / at even / at odd positions of a master file."""
    text = load_base(base_id)
    L = split_lines(text)
    pos = line_positions(L, variants_all=False)
    rws = []
    for k in kinds:
        ek = [e for e in pos if e[0] == k]
        if k in ("E7", "E8"):
            # one gap per line at a time (two rewrites of one line would shift each other's offsets)
            for sel in range(3):
                rws.append(({"edits": [e for e in ek if e[2] == sel]}, 3))
            last = {}
            for e in ek:
                last[e[1]] = e
            rws.append(({"edits": list(last.values())}, 3))
            continue
        if k == "E5":
            for sel in range(2):
                rws.append(({"edits": [e for e in ek if e[2] == sel]}, 3))
            continue
        rws.append(({"edits": ek}, 3))
        rws.append(({"edits": [e for e in ek if e[1] % 2 == 0]}, 3))
        rws.append(({"edits": [e for e in ek if e[1] % 2 == 1]}, 3))
    n = len(L)
    rws += [({"mode": m}, 3) for m in ("file", "crlf", "crlf-file", "bom")]
    rws += [({"final_end": v, "mode": "file"}, 3) for v in (0, 3)]
    rws.append(({"mode": "split", "cuts": [n // 3, 2 * n // 3], "ends": [0, 1, 0]}, 3))
    rws.append(({"mode": "split", "cuts": list(range(500, n, 500)), "ends": [2] * (len(range(500, n, 500)) + 1)}, 3))
    rws.append(({"mode": "split", "cuts": list(range(997, n, 997)), "ends": [0] * (len(range(997, n, 997)) + 1)}, 3))
    return [(base_id, [rw]) for rw in rws], len(rws)


def run(ctx):
    fixtures = fixture_files(ctx.repo)
    non_model = [f for f in fixtures if "/models/" not in f]
    model = [f for f in fixtures if "/models/" in f]
    tasks = []
    counts = {}
    for k in range(len(KITCHEN)):
        t, n = tasks_single(k, True)
        tasks += t
        counts[f"kitchen{k}-single"] = n
        t, n = tasks_pairs(k)
        tasks += t
        counts[f"kitchen{k}-pairs"] = n
    t, n = tasks_split3(1)
    tasks += t
    counts["kitchen1-split3"] = n
    if ctx.thorough:
        t, n = tasks_split3(0)
        tasks += t
        counts["kitchen0-split3"] = n
    nfix = 0
    for f in non_model + (model if ctx.thorough else model[ctx.seed % 9::9]):
        t, n = tasks_single(f, ctx.thorough)
        tasks += t
        nfix += n
    counts["fixtures-single"] = nfix
    counts["fixture_files"] = len(non_model) + (len(model) if ctx.thorough else len(model[ctx.seed % 9::9]))
    masters = MASTERS if ctx.thorough else [MASTERS[ctx.seed % 2]]
    mk = ("E1", "E2", "E3", "E4", "E5", "E6", "E7", "E8", "E9") if ctx.thorough else ("E1", "E2", "E6", "E7")
    nm = 0
    mtasks = []
    for m in masters:
        t, n = tasks_master(m, mk)
        mtasks += t
        nm += n
    counts["master-composites"] = nm
    ctx.log(f"rewrites: {counts}")
    ctx.rng.shuffle(tasks)
    alltasks = mtasks + tasks  # the long ones first
    run_tasks(ctx, work, alltasks)
    total = sum(len(rws) for _b, rws in alltasks)
    ctx.count(states=total, transitions=sum(max(1, len(rw.get("edits", []))) for _b, rws in alltasks for rw, _w in rws))
    ctx.part("rewrites", **counts)
    L = split_lines(load_base(0))
    ctx.sample({"base": "kitchen0", "rewrite": {"edits": [["E7", 21, 1, 2], ["E1", 21, 1]]},
                "text": text_of(apply_edits(L, [["E7", 21, 1, 2], ["E1", 21, 1]]))[:1800]})
    ctx.extra["bound_completed"] = {"single_edits": "every position of every base", "pairs": "same/adjacent lines on generated files",
                                    "masters": "all/even/odd positions per edit kind"}
    ctx.extra["excluded"] = ["newline between daughters and the model word", "removal of blanks", "statements already spread over several physical lines (for E7/E8)"]
