"""C03 — CDecay yields the exact charge conjugate of the referenced decay table (E2; DESIGN.md C03)."""
from __future__ import annotations

import itertools
import string

from mc import dbe
from mc.core import pmap, short_hash, run_tasks
from props.deccommon import check_ast
from ref import conj, decmodel

ORDERS = list(itertools.permutations(range(4)))
LINE_KINDS = [
    ["K-", "pi+", "pi+"],
    ["K_S0", "Foo", "pi0", "@S", "@X"],
    ["MyK+", "MyK+", "gamma", "anti-nu_e"],
    [],
    ["D*(2010)+", "a_1(1260)-", "Xi_c0", "anti-Lambda_b0", "e-", "Bar_x"],
]


def gen(c):
    naming = c.choose("naming", ["evtgen", "alias_fwd", "alias_rev", "alias_none"])
    n_lines = c.choose("n_lines", [2, 1, 3, 5])
    shift = c.choose("line_shift", [0, 1, 2, 3, 4])
    order = ORDERS[c.choose("order", list(range(len(ORDERS))))]
    decay_for_x = c.flag("decay_for_X")
    via_copy = c.flag("source_via_copy")
    no_source = c.flag("no_source")
    both = c.flag("conjugate_copy_source_too")
    n_unrel = c.choose("n_unrelated", [0, 2, 5])
    n_cdecay = c.choose("n_cdecay", [1, 2, 3, 4])
    k_orient = c.choose("MyK_chargeconj", ["fwd", "rev", "none"])
    selfconj = c.choose("self_conjugate_subject", [None, "with_decay", "without_decay"])
    if naming == "evtgen":
        S, X, pre, table = "B0", "anti-B0", [], {}
    else:
        S, X = "MyS", "MySbar"
        pre = [["Alias", "MyS", "B0"], ["Alias", "MySbar", "anti-B0"]]
        table = {} if naming == "alias_none" else ({"MySbar": "MyS"} if naming == "alias_fwd" else {"MyS": "MySbar"})
    pre += [["Alias", "MyK+", "K+"], ["Alias", "MyK-", "K-"]]
    if k_orient == "fwd":
        table["MyK+"] = "MyK-"
    elif k_orient == "rev":
        table["MyK-"] = "MyK+"
    chargeconj = [["ChargeConj", a, b] for a, b in table.items()]
    lines = []
    for i in range(n_lines):
        ds = [S if d == "@S" else X if d == "@X" else d for d in LINE_KINDS[(i + shift) % 5]]
        if i % 3 == 0:
            model, params = "SVS", ["1.0", "w"]
        elif i % 3 == 1:
            model, params = "VSS_BMIX", ["dm", "-dm"]
        else:
            model, params = "MAcc", None
        lines.append([f"0.{i+1}", ds, i % 2, model, params])
    src_name = "Orig" if via_copy else S
    if via_copy and both:
        # the original of the copy is conjugated as well (its own alias pair)
        chargeconj_extra = [["ChargeConj", "Orig", "Origbar"]]
    else:
        chargeconj_extra = []
    group_block = []
    if not no_source:
        group_block.append(["Decay", src_name, lines])
        if via_copy:
            group_block.append(["CopyDecay", S, "Orig"])
    group_block += [["Define", "dm", "0.507e12"], ["ModelAlias", "MAcc", "HELAMP", ["1.0", "0.0", "-dm"]]]
    if decay_for_x:
        group_block.append(["Decay", X, [["0.9", ["e+", "e-"], 0, "PHSP", None]]])
    cdecays = [["CDecay", X]] + ([["CDecay", "Origbar"]] if chargeconj_extra and not no_source else [])
    chargeconj = chargeconj + chargeconj_extra
    extra = []
    if n_cdecay >= 2:
        extra.append(["Decay", "D+", [["1.0", ["K-", "pi+", "pi+", "MyK+"], 1, "D_DALITZ", None], ["0.5", ["anti-K0", "e+", "nu_e"], 0, "ISGW2", None]]])
        cdecays.append(["CDecay", "D-"])
    if n_cdecay >= 3:
        extra.append(["Decay", "MyK+", [["0.6", ["mu+", "nu_mu"], 0, "SLN", None], ["0.2", ["pi+", "pi0", "Foo"], 1, "PHSP", None]]])
        cdecays.append(["CDecay", "MyK-"])
    if n_cdecay >= 4:
        cdecays.append(["CDecay", "anti-Lambda_b0"])  # no source table
    if selfconj:
        cdecays.append(["CDecay", "K_S0"])
        if selfconj == "with_decay":
            extra.append(["Decay", "K_S0", [["0.69", ["pi+", "pi-"], 0, "PHSP", None]]])
    groups = [pre, chargeconj, group_block + extra, cdecays]
    ast = []
    for gi in order:
        ast += groups[gi]
    for j in range(n_unrel):
        ast.append(["Decay", f"U{j}", [["1.0", ["a", "b"], 0, "PHSP", None]]])
    return ast


def check(ast):
    fails = []
    for flag in (True, False):
        for sig, d in check_ast(ast, include_cc=flag):
            fails.append((sig + ("" if flag else "@ccoff"), f"include_ccdecays={flag}: {d}"))
    return fails


def work(items):
    fails, outs = [], set()
    for origin, ndev, ast in items:
        f = check(ast)
        for sig, d in f:
            fails.append(("ast", {"ast": ast, "origin": origin}, sig, d + "\n" + decmodel.render(ast)[:1500], ndev))
        outs.add("F" if f else short_hash(decmodel.semantics(ast)["tables"]))
    return {"fails": fails, "outcomes": outs, "traces": 2 * len(items)}


def exec_case(kind, payload):
    return check(payload["ast"])


# ------------------------------------------------------------------------------------------------
def name_sweep(per_file):
    """Every EvtGen name that has a distinct partner as the CDecay subject; daughters cycle through all names."""
    names = sorted(conj.EVT_NAME2ID)
    subjects = [n for n in names if conj.kind(n) == "pair"]
    for k in range(0, len(subjects), per_file):
        chunk = subjects[k:k + per_file]
        done = set()
        ast = []
        for j, x in enumerate(chunk):
            src = conj.base_cc(x)
            if src in done or x in done:
                # partner already used as a source/subject in this file: keep names disjoint per file
                continue
            done.update((x, src))
            ds = [names[(k * 5 + j * 7 + i * 13) % len(names)] for i in range(5)]
            ast.append(["Decay", src, [["0.5", ds, 1, "SVS", ["1.0", "w"]], ["0.25", [ds[0], ds[0]], 0, "PHSP", None]]])
            ast.append(["CDecay", x])
        yield ["name-sweep", k, per_file], ast


def letter_sweep():
    for L in string.ascii_letters:
        for orient in ("fwd", "rev"):
            S, X = f"{L}yS", f"{L}ySbar"
            ast = [["Alias", S, "D0"], ["Alias", X, "anti-D0"],
                   ["ChargeConj", X, S] if orient == "fwd" else ["ChargeConj", S, X],
                   ["Decay", S, [["0.7", ["K-", "pi+", S, X], 1, "PHSP", None], ["0.3", ["K_S0", "Foo"], 0, "SVS", ["1.0"]]]],
                   ["CDecay", X]]
            yield ["letter", L, orient], ast


def run(ctx):
    bound = 3 if ctx.thorough else 2
    stats = {}
    items = [(["dbe", list(ch)], nd, ast) for ch, nd, ast in dbe.explore(gen, bound, stats)]
    n_dbe = len(items)
    ctx.sample({"origin": items[0][0], "text": decmodel.render(items[0][2])})
    sweeps = []
    for per in ((20, 120) if not ctx.thorough else (1, 20, 120, 400)):
        sweeps += [(o, 0, a) for o, a in name_sweep(per)]
    letters = list(letter_sweep())
    sweeps += [(o, 0, a) for o, a in letters]
    # one file with all letters (orientation alternating, names disjoint)
    sweeps.append((["letters-packed"], 0, [st for i, (_o, a) in enumerate(letters) if (i // 2 + i) % 2 == 0 for st in a]))
    ctx.log(f"{n_dbe} scenarios with <= {bound} deviations, {len(sweeps)} sweep files; each parsed with the switch on and off")
    items += sweeps
    ctx.rng.shuffle(items)
    run_tasks(ctx, work, [items[i:i + 20] for i in range(0, len(items), 20)])
    ctx.count(states=stats["nodes"] + len(sweeps), transitions=stats["choices"] + sum(len(a) for _o, _n, a in sweeps))
    ctx.part("dbe", scenarios=n_dbe, deviation_bound=bound, per_dimension_max=stats["per_dimension_max"])
    ctx.part("name-sweep", subjects=sum(1 for n in conj.EVT_NAME2ID if conj.kind(n) == "pair"), files=len(sweeps) - len(letters) - 1, complete=True)
    ctx.part("letter-sweep", files=len(letters) + 1, complete=True)
    ctx.extra["bound_completed"] = {"deviations": bound}
    ctx.extra["excluded"] = ["a name that is the subject of two CDecay statements", "non-involutive ChargeConj tables",
                             "ChargeConj mapping an alias to a self-conjugate EvtGen name that has a table"]
