"""C04 — charge conjugation is a PDG-consistent involution at every layer (E2, exhaustive tables; DESIGN.md C04)."""
from __future__ import annotations

import collections
import copy
import itertools

from decaylanguage import DaughtersDict, DecayMode
from decaylanguage.utils import charge_conjugate_name

from mc import decobs
from mc.core import pmap, short_hash, run_tasks
from props.c01_tables import labels
from ref import conj, decmodel

POOL = ["K+", "K-", "pi0", "K_S0", "D*(2010)+", "anti-B0", "Lambda_b0", "nu_e", "Foo", "My_alias+", "gamma", "anti-Xi_c0"]
PDG_POOL = ["K+", "K-", "K(S)0", "pi0", "B~0", "D*(2010)+", "Lambda(b)0", "nu(e)", "NotAName"]
METAS = [{}, {"model": "SVS", "model_params": [1.0, "w"]}, {"model": "X", "study": {"a": [1, {"b": None}]}, "zfit": {"B0": "gauss"}},
         # values that a normalising export/import would rewrite: None, empty containers, zero, False
         {"model": "PHSP", "model_params": None}, {"model": None, "model_params": 0, "flag": False, "empty": "", "lst": [], "tup": (1, 2)}]


def _exact(x):
    """Type-exact rendering of a metadata dict (None / "" / 0 / False / [] / () all differ)."""
    if isinstance(x, dict):
        return "{" + ", ".join(f"{k!r}: {_exact(v)}" for k, v in sorted(x.items(), key=lambda kv: repr(kv[0]))) + "}"
    if isinstance(x, (list, tuple)):
        return type(x).__name__ + "(" + ", ".join(_exact(v) for v in x) + ")"
    return f"{type(x).__name__}:{x!r}"


def check_names(names, pdg):
    fails = []
    if pdg == "both":
        # the same spelling asked in both naming schemes, in both orders (the utility keeps a small cache)
        for first in (False, True):
            for n in names:
                for flag in (first, not first, first):
                    fails += check_names([n], flag)
        return fails
    for n in names:
        exp = conj.base_cc_pdg(n) if pdg else conj.base_cc(n)
        got = charge_conjugate_name(n, pdg_name=True) if pdg else charge_conjugate_name(n)
        tag = "pdg" if pdg else "evtgen"
        if got != exp:
            fails.append((f"name:{tag}", f"charge_conjugate_name({n!r}{', pdg_name=True' if pdg else ''}) = {got!r}, the data tables give {exp!r}"))
            continue
        back = charge_conjugate_name(got, pdg_name=True) if pdg else charge_conjugate_name(got)
        if not exp.startswith("ChargeConj("):
            if back != n:
                fails.append((f"involution:{tag}", f"conjugating {n!r} twice gives {back!r} (via {got!r})"))
        elif back != f"ChargeConj({got})":
            # a wrapped label is itself a name without known conjugate: wrapped again, never unwrapped or altered
            fails.append((f"wrapped-label-altered:{tag}", f"conjugating the unknown name {n!r} gives {got!r}; conjugating that gives {back!r} instead of 'ChargeConj({got})'"))
    return fails


def check_final_state(fs, pdg=False):
    c = collections.Counter(fs)
    dd = DaughtersDict(dict(c))
    snapshot = dict(dd)
    got = dd.charge_conjugate(pdg_name=True) if pdg else dd.charge_conjugate()
    ccf = conj.base_cc_pdg if pdg else conj.base_cc
    exp = collections.Counter()
    for n, k in c.items():
        exp[ccf(n)] += k
    fails = []
    if dict(got) != dict(exp) or len(got) != len(fs) or type(got) is not DaughtersDict:
        fails.append(("final-state", f"DaughtersDict({dict(c)}).charge_conjugate({'pdg_name=True' if pdg else ''}) = {dict(got)}, expected {dict(exp)}"))
    twice = got.charge_conjugate(pdg_name=True) if pdg else got.charge_conjugate()
    exp2 = collections.Counter()
    for n, k in exp.items():
        exp2[ccf(n) if not n.startswith("ChargeConj(") else f"ChargeConj({n})"] += k
    if dict(twice) != dict(exp2):
        fails.append(("final-state-twice", f"conjugating {dict(c)} twice gives {dict(twice)}, expected {dict(exp2)}"))
    if dict(dd) != snapshot:
        fails.append(("final-state-mutated", f"charge_conjugate() changed the original final state {snapshot} -> {dict(dd)}"))
    return fails


def check_mode(fs, mi):
    md = copy.deepcopy(METAS[mi])
    dm = DecayMode(0.125, list(fs), **md)
    before = copy.deepcopy(dm.to_dict())
    cc = dm.charge_conjugate()
    exp = collections.Counter()
    for n in fs:
        exp[conj.base_cc(n)] += 1
    meta = {"model": "", "model_params": ""}
    meta.update(METAS[mi])
    fails = []
    if dict(cc.daughters) != dict(exp) or len(cc) != len(fs):
        fails.append(("mode-daughters", f"DecayMode({fs}).charge_conjugate() has daughters {dict(cc.daughters)}, expected {dict(exp)}"))
    if cc.bf != 0.125:
        fails.append(("mode-bf", f"branching fraction {cc.bf} after conjugation, expected 0.125"))
    if _exact(cc.metadata) != _exact(meta):
        fails.append(("mode-metadata", f"metadata after conjugation {cc.metadata}, expected {meta}"))
    else:
        cc2 = cc.charge_conjugate()
        if _exact(cc2.metadata) != _exact(meta):
            fails.append(("mode-metadata-twice", f"metadata after conjugating twice {cc2.metadata}, expected {meta}"))
    if dm.to_dict() != before:
        fails.append(("mode-mutated", f"charge_conjugate() changed the original mode {before} -> {dm.to_dict()}"))
    return fails


def check_cdecay_agreement(fss):
    """The CDecay table of the parser and DecayMode.charge_conjugate agree for the same decays (one packed file)."""
    ast = []
    for i, fs in enumerate(fss):
        ast += [["Alias", f"MyS{i}", "B0"], ["Alias", f"MySbar{i}", "anti-B0"], ["ChargeConj", f"MyS{i}", f"MySbar{i}"],
                ["Decay", f"MyS{i}", [["0.125", list(fs), i % 2, "PHSP", None]]], ["CDecay", f"MySbar{i}"]]
        if i % 3 == 0:
            # the same decay through a CopyDecay clone that is conjugated as well
            ast += [["CopyDecay", f"MyC{i}", f"MyS{i}"], ["ChargeConj", f"MyC{i}", f"MyCbar{i}"], ["CDecay", f"MyCbar{i}"]]
    p = decobs.parse_text(decmodel.render(ast))
    fails = []
    for i, fs in enumerate(fss):
        exp = DecayMode(0.125, list(fs)).charge_conjugate()
        for name in [f"MySbar{i}"] + ([f"MyCbar{i}"] if i % 3 == 0 else []):
            try:
                got = decobs.table_of(p, name)
            except Exception as e:  # noqa: BLE001
                got = [("no table", [repr(e)])]
            if len(got) != 1 or collections.Counter(got[0][1]) != collections.Counter(dict(exp.daughters)) or got[0][0] != exp.bf:
                fails.append((i, "cdecay-disagrees", f"CDecay table {name} for final state {fs}: {got}; DecayMode.charge_conjugate(): {dict(exp.daughters)}"))
                break
    return fails


def exec_case(kind, payload):
    if kind == "names":
        return check_names(payload["names"], payload["pdg"])
    if kind == "final-state":
        return check_final_state(payload["fs"], payload.get("pdg", False))
    if kind == "mode":
        return check_mode(payload["fs"], payload["meta"])
    if kind == "cdecay":
        return [(s, d) for _i, s, d in check_cdecay_agreement([payload["fs"]])]
    if kind == "sequence":
        return [(s + "@history", d) for _i, s, d in _run_seq([(k, p) for k, p in payload["items"]])]
    raise ValueError(kind)


def _run_seq(items):
    """Run cases in order in this (forked, pristine) process; return [(index, sig, detail)]."""
    out = []
    cd = [(i, p["fs"]) for i, (k, p) in enumerate(items) if k == "cdecay"]
    for i, (kind, payload) in enumerate(items):
        if kind == "cdecay":
            continue
        for sig, d in exec_case(kind, payload):
            out.append((i, sig, d))
    if cd:
        for j, sig, d in check_cdecay_agreement([fs for _i, fs in cd]):
            out.append((cd[j][0], sig, d))
    return out


def work(items):
    from mc.core import run_forked
    fails, outs = [], set()
    res = run_forked(_run_seq, items)
    for i, sig, d in res:
        kind, payload = items[i]
        alone = run_forked(_run_seq, [items[i]])
        if any(s == sig for _i, s, _d in alone):
            if kind == "names":
                nm = d.split("'")[1] if "'" in d else None
                payload = {"names": [nm] if nm in payload["names"] else payload["names"], "pdg": payload["pdg"]}
            fails.append((kind, payload, sig, d, len(str(payload))))
        else:
            # only fails after the calls that precede it: the history is the counterexample
            fails.append(("sequence", {"items": [list(x) for x in items[: i + 1]]}, sig + "@history", d, 10 ** 5 + i))
    for kind, payload in items:
        outs.add(short_hash([kind, payload]))
    return {"fails": fails, "outcomes": outs, "traces": len(items)}


def final_states(ctx):
    out = []
    for k in (1, 2, 3):
        for combo in itertools.combinations(POOL, k):
            for mults in itertools.product((1, 2), repeat=k):
                out.append([n for n, m in zip(combo, mults) for _ in range(m)])
    for n in POOL:
        for m in (3, 4, 5, 6):
            out.append([n] * m + ["pi0"])
    for n in sorted(conj.EVT_NAME2ID):
        out.append([n, n])
    if ctx.thorough:
        names = sorted(conj.EVT_NAME2ID)
        for a in names[ctx.seed % 7::7]:
            for b in names[::11]:
                out.append([a, b, a])
    return out


def run(ctx):
    evt = sorted(conj.EVT_NAME2ID)
    pdg = sorted(conj.PDG_NAME2ID)
    unknown = [l for l in labels() if l not in conj.EVT_NAME2ID][:: (1 if ctx.thorough else 3)]
    items = []
    # the name utility keeps a 64-entry cache: sweep the tables forwards and backwards
    for order in (evt, evt[::-1]):
        items += [("names", {"names": order[i:i + 100], "pdg": False}) for i in range(0, len(order), 100)]
    for order in (pdg, pdg[::-1]):
        items += [("names", {"names": order[i:i + 100], "pdg": True}) for i in range(0, len(order), 100)]
    both = sorted(set(evt) | set(pdg))
    items += [("names", {"names": both[i:i + 50], "pdg": "both"}) for i in range(0, len(both), 50)]
    items += [("names", {"names": unknown[i:i + 100], "pdg": False}) for i in range(0, len(unknown), 100)]
    items += [("names", {"names": unknown[i:i + 100], "pdg": True}) for i in range(0, len(unknown), 100)]
    fss = final_states(ctx)
    items += [("final-state", {"fs": fs}) for fs in fss]
    for k in (1, 2, 3):
        for combo in itertools.combinations_with_replacement(PDG_POOL, k):
            items.append(("final-state", {"fs": list(combo), "pdg": True}))
    items += [("mode", {"fs": fs, "meta": mi}) for fs in fss[:: (1 if ctx.thorough else 2)] for mi in range(len(METAS))]
    cds = [fs for fs in fss if all(n[0] not in "0123456789" for n in fs)]
    items += [("cdecay", {"fs": fs}) for fs in cds]
    kinds = collections.Counter(k for k, _p in items)
    ctx.log(f"{len(evt)} EvtGen names, {len(pdg)} PDG names, {len(unknown)} unknown labels; cases: {dict(kinds)}")
    cd_items = [it for it in items if it[0] == "cdecay"]
    other = [it for it in items if it[0] != "cdecay"]
    chunks = [other[i:i + 60] for i in range(0, len(other), 60)] + [cd_items[i:i + 60] for i in range(0, len(cd_items), 60)]
    run_tasks(ctx, work, chunks)
    ctx.count(states=len(items), transitions=2 * (len(evt) + len(pdg)) + len(items))
    kinds_k = conj.kind
    ctx.part("names", evtgen=len(evt), pdg=len(pdg), unknown_labels=len(unknown),
             evtgen_self=sum(1 for n in evt if kinds_k(n) == "self"), evtgen_paired=sum(1 for n in evt if kinds_k(n) == "pair"),
             evtgen_without_partner=sum(1 for n in evt if kinds_k(n) == "unknown"), complete=True)
    ctx.part("objects", **{k: v for k, v in kinds.items() if k != "names"})
    ctx.sample({"kind": "final-state", "fs": ["K+", "K+", "anti-B0", "Foo"], "expected": {"K-": 2, "B0": 1, "ChargeConj(Foo)": 1}})
    ctx.sample({"kind": "names", "first": evt[:5], "expected": [conj.base_cc(n) for n in evt[:5]]})
