"""C05 — Define'd parameters and ModelAlias'd models mean exactly their expansion (E2; DESIGN.md C05)."""
from __future__ import annotations

from mc import dbe, decobs
from mc.core import pmap, short_hash, run_tasks
from mc.decobs import typed
from props.deccommon import check_ast
from ref import decmodel

DEF_NAMES = ["dm", "dm2", "xdm"]          # prefixes / suffixes of each other
DEF_NAME_SETS = [["dm", "dm2", "xdm"], ["g_H-", "g_H", "w(K*-)-"], ["a-b", "a", "b+"], ["x~", "x/y", "x.y'"]]
DEF_VALUES = ["0.507e12", "-1.5", "2"]
REDEF_VALUES = ["7.25", "-0.125"]
ALIAS_NAMES = ["MA", "MA2", "XMA"]
ALIAS_MODELS = ["VSS_BMIX", "SVS", "HELAMP"]
ALIAS_PARAMS = [None, ["1.0"], ["dm"], ["-dm", "0.5", "dm2"], ["w", "-xdm", "dm"], ["-dm2", "xdm", "-1"]]
PLACES = ["before", "between", "after"]


def gen(c):
    names = DEF_NAME_SETS[c.choose("define_names", [0, 1, 2, 3])]
    ast = _gen(c)
    if names is DEF_NAME_SETS[0]:
        return ast
    ren = dict(zip(DEF_NAME_SETS[0], names))

    def rw(w):
        if w in ren:
            return ren[w]
        if w.startswith("-") and w[1:] in ren:
            return "-" + ren[w[1:]]
        return w

    out = []
    for st in ast:
        if st[0] == "Define":
            out.append(["Define", rw(st[1]), st[2]])
        elif st[0] == "ModelAlias":
            out.append(["ModelAlias", st[1], st[2], [rw(w) for w in st[3]] if st[3] else st[3]])
        elif st[0] == "Decay":
            out.append(["Decay", st[1], [[bf, [rw(d) for d in ds], ph, m, [rw(w) for w in ps] if ps else ps] for bf, ds, ph, m, ps in st[2]]])
        else:
            out.append(st)
    return out


def _gen(c):
    n_def = c.choose("n_def", [1, 0, 2, 3])
    n_alias = c.choose("n_alias", [1, 0, 2, 3])
    n_blocks = c.choose("n_blocks", [1, 2, 3])
    defs = []
    for i in range(n_def):
        defs.append((DEF_NAMES[i], DEF_VALUES[i], c.choose(f"def_place{i}", PLACES)))
    redef = c.choose("redefine", [0, 1, 2, 3]) if n_def else 0   # 3: a new value, then the original value again
    redef_place = c.choose("redef_place", ["after", "between", "before"]) if redef else None
    aliases = []
    for i in range(n_alias):
        pk = c.choose(f"alias_params{i}", list(range(len(ALIAS_PARAMS))))
        aliases.append((ALIAS_NAMES[i], ALIAS_MODELS[i], ALIAS_PARAMS[pk], c.choose(f"alias_place{i}", PLACES)))
    alias_redef = c.choose("alias_redefine", [0, 1, 2]) if n_alias else 0   # 2: redefined, then the original statement again
    neg = c.choose("negated_use", [0, 1, 2, 3])
    as_daughter = c.flag("define_name_as_daughter")
    undefined = c.flag("undefined_word")
    copied = c.flag("copied")
    conj = c.flag("conjugated")
    blocks = []
    for b in range(n_blocks):
        n_du = c.choose(f"def_uses{b}", [1, 0, 2, 3])
        n_au = c.choose(f"alias_uses{b}", [1, 0, 2, 3])
        lines = []
        k = 0
        for u in range(n_du):
            name = DEF_NAMES[u % max(n_def, 1)] if n_def else "dm"
            params = ["1.0", ("-" + name) if (neg == 3 or (neg == 1 and u % 2 == 0) or (neg == 2 and u % 2 == 1)) else name, "w"]
            if undefined:
                params.append("notdefined")
                params.append("-notdefined")
            ds = ["B0", "anti-B0"] + ([name] if as_daughter else [])
            lines.append([f"0.{b+1}{k+1}", ds, k % 2, "VSS_BMIX", params])
            k += 1
        for u in range(n_au):
            if not n_alias:
                break
            lines.append([f"0.{b+1}{k+1}", ["K+", "pi-"], 0, ALIAS_NAMES[u % n_alias], None])
            k += 1
        lines.append([f"0.{b+1}9", ["gamma"], 0, "PHSP", None])
        blocks.append(["Decay", ["MyB", "U1", "U2"][b], lines])
    # assemble by placement
    pre, mid, post = [], [], []
    where = {"before": pre, "between": mid, "after": post}
    for name, val, place in defs:
        where[place].append(["Define", name, val])
    for name, model, params, place in aliases:
        where[place].append(["ModelAlias", name, model, params])
    if redef == 3:
        where[redef_place] += [["Define", DEF_NAMES[0], REDEF_VALUES[0]], ["Define", DEF_NAMES[0], DEF_VALUES[0]]]
    else:
        for r in range(redef):
            where[redef_place].append(["Define", DEF_NAMES[0], REDEF_VALUES[r]])
    if alias_redef:
        post.append(["ModelAlias", ALIAS_NAMES[0], "SVP_HELAMP", ["9.5", "dm"]])
    if alias_redef == 2:
        post.append(["ModelAlias", aliases[0][0], aliases[0][1], aliases[0][2]])
    ast = list(pre)
    for i, blk in enumerate(blocks):
        ast.append(blk)
        if i == 0:
            ast += mid
    ast += post
    if copied:
        ast.append(["CopyDecay", "MyCopy", "MyB"])
    if conj:
        ast += [["Alias", "MyB", "B0"], ["Alias", "MyBbar", "anti-B0"], ["ChargeConj", "MyB", "MyBbar"], ["CDecay", "MyBbar"]]
    return ast


def check(ast):
    fails = check_ast(ast)
    if fails:
        return fails
    text = decmodel.render(ast)
    p = decobs.parse_text(text)
    sem = decmodel.semantics(ast)
    # (3) definition queries reflect the last definition
    d = p.dict_definitions()
    if typed(d) != typed(sem["definitions"]):
        fails.append(("dict_definitions", f"dict_definitions()={d}, expected {sem['definitions']}\n{text}"))
    ma = p.dict_model_aliases()
    if ma != sem["model_aliases"]:
        fails.append(("dict_model_aliases", f"dict_model_aliases()={ma}, expected {sem['model_aliases']}\n{text}"))
    # (1) metamorphic: the expanded text gives the same tables
    ex = decmodel.expand_uses(ast)
    text2 = decmodel.render(ex)
    try:
        p2 = decobs.parse_text(text2)
        t1, t2 = typed(decobs.tables(p)), typed(decobs.tables(p2))
        if t1 != t2:
            diff = [m for m in t1 if t1.get(m) != t2.get(m)]
            fails.append(("metamorphic-expansion", f"tables differ for {diff} between the text and its expansion:\n{text}\n--- expanded ---\n{text2}"))
        else:
            # both texts are read by the same implementation: also the representation (e.g. of an absent parameter
            # list) must be the same, whatever it is
            r1, r2 = typed(decobs.raw_tables(p)), typed(decobs.raw_tables(p2))
            if r1 != r2:
                diff = [(m, a, b) for m in r1 for a, b in zip(r1[m], r2.get(m, [])) if a != b][:2]
                fails.append(("metamorphic-expansion:representation", f"a line is reported differently in the text and in its expansion: {diff}\n{text}\n--- expanded ---\n{text2}"))
    except Exception as e:  # noqa: BLE001
        fails.append((f"expanded-parse-exception:{type(e).__name__}", f"{e!s:.300}\n{text2}"))
    return fails


def work(items):
    fails, outs = [], set()
    for choices, ndev, ast in items:
        f = check(ast)
        for sig, d in f:
            fails.append(("ast", {"ast": ast, "choices": choices}, sig, d, ndev))
        outs.add("F" if f else short_hash(decmodel.semantics(ast)["tables"]))
    return {"fails": fails, "outcomes": outs, "traces": len(items)}


def exec_case(kind, payload):
    return check(payload["ast"])


def run(ctx):
    bound = 4 if ctx.thorough else 2
    stats = {}
    items = [(list(ch), nd, ast) for ch, nd, ast in dbe.explore(gen, bound, stats)]
    ctx.log(f"{len(items)} scenarios with <= {bound} deviations")
    ctx.rng.shuffle(items)
    run_tasks(ctx, work, [items[i:i + 25] for i in range(0, len(items), 25)])
    ctx.count(states=stats["nodes"], transitions=stats["choices"])
    ctx.part("define-alias", scenarios=len(items), deviation_bound=bound, per_dimension_max=stats["per_dimension_max"])
    big = max(items, key=lambda x: len(x[2]))
    ctx.sample({"choices": items[0][0], "text": decmodel.render(items[0][2])})
    ctx.sample({"choices": big[0], "text": decmodel.render(big[2])})
    ctx.extra["bound_completed"] = {"deviations": bound}
    ctx.extra["excluded"] = ["+name uses", "alias whose model word is another alias", "alias names equal to model names"]
