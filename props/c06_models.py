"""C06 — every supported model name is recognised as itself; unknown models are rejected (E2; DESIGN.md C06)."""
from __future__ import annotations

from mc import decobs
from mc.core import pmap, short_hash, run_tasks
from props.deccommon import MODELS, compare_tables
from ref import decmodel

WORD = set("abcdefghijklmnopqrstuvwxyzABCDEFGHIJKLMNOPQRSTUVWXYZ0123456789_")
USER_NAMES = ["MYMODEL", "MY_MODEL", "MY-MODEL", "PHS", "SV", "BTOSLL", "PHSP_X", "PHSP-X", "HQET33", "Q", "my.model",
              "M(1)X", "A*B", "X+Y", "m1", "SVS_CP_", "BC", "B.C", "A(B", "A)B", "a.b.c", "X++Y", "U_1-2"]
# words an *unescaped* regular expression built from the user name would also match
METACHAR_NEAR = {"my.model": ["myXmodel", "my_model"], "M(1)X": ["M1X"], "A*B": ["AAB", "B", "AB"], "X+Y": ["XXY", "XY"],
                 "B.C": ["BxC", "B_C"], "a.b.c": ["aXbXc"], "X++Y": ["XY", "XXY"]}


def contexts(m, tag):
    """Five decay lines that use model m in different neighbourhoods; labels extend m by word characters."""
    return [
        [f"0.1{tag}", ["q1", "q2"], 0, m, None],
        [f"0.2{tag}", ["q1", "q2"], 1, m, None],
        [f"0.3{tag}", [], 0, m, None],
        [f"0.4{tag}", ["q1"], 0, m, ["1.0", "w", m + "x", "y" + m, m + "_1", m + "9"]],
        [f"0.5{tag}", [m + "x", m + "_", m + "0", "x" + m], 1, m, ["2"]],
    ]


def check_accept(ast, models=None, calls=None):
    """The text must parse with the given registered models and report every model verbatim."""
    text = decmodel.render(ast)
    try:
        p = decobs.DecFileParser.from_string(text)
        for call in (calls or ([list(models)] if models else [])):
            p.load_additional_decay_models(*call)
        p.parse()
    except Exception as e:  # noqa: BLE001
        return [(f"rejected:{type(e).__name__}", f"registered={calls or models}: parse() raised {type(e).__name__}: {str(e)[:200]}\n{text[:800]}")]
    f = compare_tables(ast, p)
    return [(s, f"registered={calls or models}: {d}\n{text[:800]}") for s, d in f]


def check_reject(text, models=None):
    try:
        p = decobs.DecFileParser.from_string(text)
        if models:
            p.load_additional_decay_models(*models)
        p.parse()
    except Exception:  # noqa: BLE001  (the property demands an error, not a class)
        return []
    # parse() returned: that alone is the violation ("makes parsing fail"); the tables are only shown as detail
    try:
        got = decobs.tables(p)
    except Exception as e:  # noqa: BLE001
        got = f"<tables not readable afterwards: {type(e).__name__}: {e!s:.100}>"
    return [("unknown-model-accepted", f"registered={models}: text with an undefined model word was accepted as {got}\n{text}")]


# ---- histories of parser instances in ONE process: a registration belongs to the instance it was made on ----------
# a configuration of one parser instance: names registered on it, or a ModelAlias defined in its text ("=NAME")
REG_SETS = [[], ["MYGEN"], ["MYGEN_V2", "OTHERGEN"], ["MYGEN", "MYGEN_V2"], ["=MYGEN"], ["=OTHERGEN"]]
WORDS = ["MYGEN", "MYGEN_V2", "OTHERGEN", "PHSP"]
INSTANCE_OPS = [(r, w) for r in range(len(REG_SETS)) for w in range(len(WORDS))]


def run_instance_history(hist):
    """Each step: a fresh DecFileParser registers REG_SETS[r] and parses a line that uses WORDS[w] as its model.
    Accepted iff the word is published or registered ON THAT INSTANCE (whatever earlier instances registered)."""
    fails = []
    for step, (r, w) in enumerate(hist):
        word, reg = WORDS[w], [x for x in REG_SETS[r] if not x.startswith("=")]
        aliases = [x[1:] for x in REG_SETS[r] if x.startswith("=")]
        use = f"{word};"   # no parameters: an unknown word is then a model label, whose lookup must fail
        text = "".join(f"ModelAlias {a} SVS 1.0;\n" for a in aliases) + f"Decay mth\n0.5 q1 q2 PHSP;\n1.0 q1 q2 {use}\nEnddecay\n"
        should = word in MODELS or word in reg or word in aliases
        try:
            p = decobs.DecFileParser.from_string(text)
            if reg:
                p.load_additional_decay_models(*reg)
            p.parse()
            accepted = True
        except Exception:  # noqa: BLE001
            accepted = False
        tab = None
        if accepted:
            try:
                tab = decobs.table_of(p, "mth")
            except Exception as e:  # noqa: BLE001
                tab = f"<table not readable: {type(e).__name__}>"
        if step == len(hist) - 1:
            if accepted and not should:
                fails.append(("unknown-model-accepted@history", f"instances {[(REG_SETS[a], WORDS[b]) for a, b in hist]}: the last parser registered {reg} but accepts model word {word!r}: {tab}"))
            elif not accepted and should:
                fails.append(("rejected@history", f"instances {[(REG_SETS[a], WORDS[b]) for a, b in hist]}: the last parser registered {reg} but rejects {word!r}"))
            elif accepted and (isinstance(tab, str) or tab[1][3] != ("SVS" if word in aliases else word)):
                fails.append(("table-model@history", f"instances {[(REG_SETS[a], WORDS[b]) for a, b in hist]}: model reported {tab if isinstance(tab, str) else tab[1][3]!r} instead of {word!r}"))
    return {"canon": ("instances", len(fails) > 0), "fails": fails, "enabled": INSTANCE_OPS, "outcome": "F" if fails else "ok"}


# ---- sequences of calls on ONE parser instance: a name registered before a parse() is accepted by that parse() ----
CALL_OPS = ["load:MYGEN", "load:OTHERGEN", "load:MYGEN_V2,MYGEN", "grammar", "grammar_info", "parse"]
CALL_WORDS = ["MYGEN", "OTHERGEN", "MYGEN_V2", "PHSP", "SVS"]


def run_calls(word, ops):
    """ops (indices into CALL_OPS) are applied to one parser of a text whose second line uses `word` as its model,
    then parse() is called. Failed intermediate parses are part of the history (their error is swallowed)."""
    text = f"Decay mth\n0.5 q1 q2 PHSP;\n1.0 q1 q2 {word};\nEnddecay\n"
    p = decobs.DecFileParser.from_string(text)
    registered = set()
    for o in ops:
        op = CALL_OPS[o]
        if op.startswith("load:"):
            names = op[5:].split(",")
            p.load_additional_decay_models(*names)
            registered.update(names)
        elif op == "grammar":
            p.grammar()
        elif op == "grammar_info":
            p.grammar_info()
        else:
            try:
                p.parse()
            except Exception:  # noqa: BLE001
                pass
    should = word in MODELS or word in registered
    hist = [CALL_OPS[o] for o in ops] + ["parse"]
    try:
        p.parse()
    except Exception as e:  # noqa: BLE001
        return [("registered-name-rejected@calls", f"model word {word!r}, calls {hist}: the last parse() raised {type(e).__name__}: {str(e)[:160]}")] if should else []
    if not should:
        return [("unknown-model-accepted@calls", f"model word {word!r}, calls {hist}: never registered, but the last parse() accepted it")]
    try:
        tab = decobs.table_of(p, "mth")
        ok = [ln[3] for ln in tab] == ["PHSP", word] and [list(ln[1]) for ln in tab] == [["q1", "q2"], ["q1", "q2"]]
    except Exception as e:  # noqa: BLE001
        tab, ok = f"<table not readable: {type(e).__name__}: {e!s:.100}>", False
    return [] if ok else [("table-model@calls", f"model word {word!r}, calls {hist}: table reported as {tab}")]


def work_calls(items):
    fails, outs = [], set()
    for w, ops in items:
        f = run_calls(CALL_WORDS[w], ops)
        for sig, d in f:
            fails.append(("calls", {"word": w, "ops": list(ops)}, sig, d, len(ops)))
        outs.add("F" if f else short_hash([w, sorted(set(ops))]))
    return {"fails": fails, "outcomes": outs, "traces": len(items)}


def exec_case(kind, payload):
    if kind == "calls":
        return run_calls(CALL_WORDS[payload["word"]], payload["ops"])
    if kind == "instances":
        from mc.core import run_forked
        return run_forked(run_instance_history, tuple(tuple(o) for o in payload["history"]))["fails"]
    if kind == "accept":
        return check_accept(payload["ast"], payload.get("models"), payload.get("calls"))
    if kind == "reject":
        return check_reject(payload["text"], payload.get("models"))
    raise ValueError(kind)


def work(items):
    fails, outs = [], set()
    for kind, payload, weight in items:
        f = exec_case(kind, payload)
        for sig, d in f:
            fails.append((kind, payload, sig, d, weight))
        outs.add("F" if f else short_hash([kind, payload.get("models"), payload.get("text", "")[:60]]))
    return {"fails": fails, "outcomes": outs, "traces": len(items)}


def build(ctx):
    items = []
    # (a) every published name in every context: one packed block and one block per name
    big = [["Decay", "mth", [ln for i, m in enumerate(MODELS) for ln in contexts(m, f"{i:03d}")]]]
    items.append(("accept", {"ast": big, "part": "a-packed"}, 1000))
    for i, m in enumerate(MODELS):
        items.append(("accept", {"ast": [["Decay", "mth", contexts(m, "")]], "part": "a"}, 5))
    na = len(items)
    # (b) prefix-related published names side by side, both orders, and as model + parameter word
    pairs = [(a, b) for a in MODELS for b in MODELS if a != b and b.startswith(a)]
    for a, b in pairs:
        for x, y in ((a, b), (b, a)):
            ast = [["Decay", "mth", [["0.5", ["q1"], 0, x, None], ["0.25", ["q2"], 1, y, ["1.0"]], ["0.125", [x + "q"], 0, y, [y + "z", "3"]],
                                   ["0.0625", ["q3"], 0, x, ["1", y + "_k"]]]]]
            items.append(("accept", {"ast": ast, "part": "b"}, 4))
    nb = len(items) - na
    # (c) user-registered names
    prefixes = []
    for N in MODELS:
        for k in range(1, len(N)):
            P = N[:k]
            if P in MODELS or P[-1] not in WORD or P[0] in "0123456789+-.":
                continue
            prefixes.append((N, P))
    if False:
        prefixes = [(N, P) for N, P in prefixes if len(P) in (1, 2, len(N) - 1)]
    for N, P in prefixes:
        lines = [["1.0", ["q3", "q1"], 0, P, ["1.0"]], ["0.5", ["q1", P + "x"], 0, N, None]]
        if "-" not in N[len(P):len(P) + 1]:
            lines.append(["0.4", [N + "x"], 0, N, ["2", P + "y"]])
        lines += [["0.25", ["q1"], 1, P, None], ["0.2", ["q2"], 0, "PHSP_CP", ["1"]], ["0.1", ["q2"], 0, "BTOSLLALI", None]]
        items.append(("accept", {"ast": [["Decay", "mth", lines]], "models": [P], "part": "c-prefix"}, 6))
    for u in USER_NAMES:
        lines = [["1.0", ["q1", "q2"], 0, u, ["1.0"]], ["0.5", ["q1", "Z" + u + "x"], 1, "PHSP", None], ["0.4", ["q1"], 0, "PHSP_CP", ["1"]],
                 ["0.3", ["q1"], 0, "BTOSLLALI", None], ["0.2", [], 1, u, None]]
        ast = [["Decay", "mth", lines]]
        items.append(("accept", {"ast": ast, "models": [u], "part": "c-user"}, 5))
        items.append(("accept", {"ast": ast, "calls": [["OTHER1"], [u], ["OTHER2", "PHSP"]], "part": "c-user-calls"}, 6))
        items.append(("accept", {"ast": ast, "calls": [[u, u], ["SVS", u]], "part": "c-user-dup"}, 6))
    for u in ("MYMODEL", "my.model", "PHS", "B", "SVS_CP_IS"):
        items.append(("accept", {"ast": big, "models": [u], "part": "c-all-published-with-user"}, 1000))
    nc = len(items) - na - nb
    # (d) unknown words in the model position must be rejected
    nd0 = len(items)
    for N in MODELS:
        cands = [N + "X", N + "_", N + "0", "_" + N, N[:-1], N.lower(), N + "x1", "Z" + N]
        if not ctx.thorough:
            cands = cands[:6]
        for w in dict.fromkeys(cands):
            if w in MODELS or not w or w[0] in "0123456789+-.":
                continue
            for params in ("", " 1.0 2.0"):
                items.append(("reject", {"text": f"Decay mth\n0.5 q1 q2 PHSP;\n1.0 q1 q2 {w}{params};\nEnddecay\n", "part": "d"}, 3))
    for u, nears in METACHAR_NEAR.items():
        for w in nears:
            if w in MODELS:
                continue
            items.append(("reject", {"text": f"Decay mth\n1.0 q1 q2 {u} 1.0;\n0.5 q1 q2 {w};\nEnddecay\n", "models": [u], "part": "d-metachar"}, 4))
            items.append(("reject", {"text": f"Decay mth\n0.5 q1 q2 {w} 1.0 2.0;\nEnddecay\n", "models": [u], "part": "d-metachar"}, 4))
    for w in ("UndefinedAlias", "MAx", "PHSPX", "MyModel_1"):
        items.append(("reject", {"text": f"ModelAlias MA SVS;\nDecay mth\n1.0 q1 q2 MA;\n0.5 q1 {w};\nEnddecay\n", "part": "d-alias"}, 4))
    nd = len(items) - nd0
    return items, {"a": na, "b": nb, "c": nc, "d": nd, "prefix_registrations": len(prefixes), "prefix_pairs": len(pairs)}


def run(ctx):
    from mc.bfs import bfs
    depth = 3 if ctx.thorough else 2
    bfs(ctx, "parser-instances-in-one-process", run_instance_history, depth, depth, "instances",
        payload_of=lambda h: {"history": [list(o) for o in h]}, chunk=16, isolate=True)
    import itertools
    cdepth = 4 if ctx.thorough else 3
    seqs = [(w, ops) for n in range(cdepth + 1) for ops in itertools.product(range(len(CALL_OPS)), repeat=n) for w in range(len(CALL_WORDS))]
    ctx.log(f"{len(seqs)} call sequences (<= {cdepth} calls of {CALL_OPS} before the last parse, x {len(CALL_WORDS)} model words) on one parser")
    run_tasks(ctx, work_calls, [seqs[i:i + 40] for i in range(0, len(seqs), 40)])
    ctx.count(states=len(seqs), transitions=sum(len(o) + 1 for _w, o in seqs))
    ctx.part("call-sequences-on-one-parser", sequences=len(seqs), max_calls=cdepth, ops=CALL_OPS, words=CALL_WORDS, complete=True)
    items, counts = build(ctx)
    ctx.log(f"cases: {counts}")
    ctx.sample({"kind": items[1][0], "text": decmodel.render(items[1][1]["ast"])})
    ctx.sample({"kind": items[-1][0], "payload": items[-1][1]})
    heavy = [it for it in items if it[2] >= 1000]
    light = [it for it in items if it[2] < 1000]
    ctx.rng.shuffle(light)
    chunks = [[h] for h in heavy] + [light[i:i + 30] for i in range(0, len(light), 30)]
    run_tasks(ctx, work, chunks)
    ctx.count(states=len(items), transitions=sum(len(it[1].get("ast", [[0, 0, [0]]])[0][2]) if it[0] == "accept" else 1 for it in items))
    ctx.part("cases", **counts, published_models=len(MODELS), complete=True)
    ctx.extra["bound_completed"] = {"published_names": len(MODELS), "contexts_per_name": 5, "prefix_lengths": "all"}
    ctx.extra["excluded"] = ["user names ending in a non-word character or starting with a digit/sign/dot",
                             "unknown words of the form <model name><non-word character>... (read as model + parameter by the grammar)"]
