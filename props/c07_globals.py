"""C07 — global declarations are reported completely, later declarations winning (E2; DESIGN.md C07)."""
from __future__ import annotations

import itertools
import math

from mc import dbe, decobs
from mc.core import pmap, short_hash, run_tasks
from mc.decobs import typed
from props.c01_tables import labels, numeric_forms
from ref import decmodel

PLACES = ["before", "between", "after"]
COUNTS = [1, 0, 2, 3, 4]   # 4: the fourth statement repeats the first one verbatim (a, b, c, a)
NUMS = ["1.5", "2", "-0.8", "+3", "20.e12", "2E-4", ".5", "7."]
KINDS = ["Alias", "ChargeConj", "Define", "CopyDecay", "CDecay", "Particle", "Pythia", "JetSetPar", "LS",
         "BlattWeisskopf", "ChangeMass", "IncFactor", "SetLineshapePW", "ModelAlias"]
BASE_BLOCKS = [
    ["Decay", "A0", [["0.6", ["K-", "pi+"], 0, "PHSP", None], ["0.4", ["K-", "pi+", "pi0"], 1, "SVS", ["1.0"]]]],
    ["Decay", "B+", [["1.0", ["A0", "pi+"], 0, "VSS", None]]],
]


def stmt(kind, i, v):
    """i-th statement of a kind; names are drawn so that statement 0 and 2 collide; v selects the value form."""
    ni = [0, 1, 0][i]
    num = NUMS[(i * 3 + v) % len(NUMS)]
    if kind == "Alias":
        return ["Alias", f"Al{ni}", ["B0", "K*0", "D+"][i]]
    if kind == "ChargeConj":
        return ["ChargeConj", f"Cc{ni}", f"Ccbar{i}"]
    if kind == "Define":
        return ["Define", f"df{ni}", num]
    if kind == "CopyDecay":
        return ["CopyDecay", f"Cp{ni}", ["A0", "B+", "B+"][i]]
    if kind == "CDecay":
        # v=2: names that also have a Decay block of their own (A0, B+): the statement is still reported
        return ["CDecay", [["anti-Zq", "Zr-", "Zs+"], ["anti-Zq", "Zr-", "anti-Zq"], ["A0", "Zr-", "B+"]][v][i]]
    if kind == "Particle":
        name = ["rho0", "MyRho", "rho0"][i]
        # statements 0 and 2 name the same particle: width absent/absent, given/absent (v=1), absent/given (v=2)
        given = [[False, True, False], [True, False, False], [False, False, True]][v % 3][i]
        return ["Particle", name, num.lstrip("+-"), NUMS[(i + v + 2) % len(NUMS)].lstrip("+-") if given else None]
    if kind == "Pythia":
        k = ["PythiaBothParam", "PythiaAliasParam", "PythiaBothParam"][i]
        return ["Pythia", k, "ParticleDecays", ["mixB", "tau0Max", "mixB"][i], [["off", "on", "x1"], [num, num, num]][v % 2][i] if v < 2 else ["-1.", "word", "3"][i]]
    if kind == "JetSetPar":
        return ["JetSetPar", ["PARJ(21)", "MSTU(1)", "PARJ(21)"][i], [["0", "5", "-1"], ["0.001", "1.", "1e2"], ["+2", "0.36", "3"]][v % 3][i]]
    if kind == "LS":
        return ["LS", ["LSNONRELBW", "LSFLAT", "LSMANYDELTAFUNC"][i], f"Ls{i}"]
    if kind == "BlattWeisskopf":
        return ["BlattWeisskopf", ["Ls0", "Bw1", "Ls2"][i], num]
    if kind == "ChangeMass":
        return ["ChangeMass", ["ChangeMassMin", "ChangeMassMax", "ChangeMassMax"][i], ["Ls0", "Ls0", "Cm2"][i], num]
    if kind == "IncFactor":
        return ["IncFactor", ["IncludeBirthFactor", "IncludeDecayFactor", "IncludeDecayFactor"][i], ["Ls0", "Ls0", "If2"][i], ["no", "yes", "yes"][(i + v) % 3]]
    if kind == "SetLineshapePW":
        return ["SetLineshapePW", "D_1+", ["D*+", "D*0", "D*+"][i], ["pi0", "pi+", "pi0"][i], str((i * 2 + v) % 4)]
    if kind == "ModelAlias":
        return ["ModelAlias", f"MAl{ni}", ["SVS", "VSS", "HELAMP"][i], [None, ["1.0", "df0"], ["w"]][(i + v) % 3]]
    raise ValueError(kind)


LS_REPEATS = [None, ["LS", "LSFLAT", "Ls0"], ["BlattWeisskopf", "Ls0", "9"], ["ChangeMass", "ChangeMassMin", "Ls0", "0.1"],
              ["IncFactor", "IncludeBirthFactor", "Ls0", "yes"], ["LS", "LSNONRELBW", "Ls0"], ["BlattWeisskopf", "Bw9", "1"]]


def gen(c):
    pre, mid, post = [], [], []
    where = {"before": pre, "between": mid, "after": post}
    need_alias_myrho = False
    for k in KINDS:
        n = c.choose(f"n_{k}", COUNTS)
        if n == 0:
            continue
        place = c.choose(f"place_{k}", PLACES)
        v = c.choose(f"value_{k}", [0, 1, 2])
        split = c.flag(f"split_{k}") if n > 1 else False
        for i in range(n):
            st = stmt(k, i if i < 3 else 0, v)
            if k == "Particle" and st[1] == "MyRho":
                need_alias_myrho = True
            (where[PLACES[(PLACES.index(place) + i) % 3]] if split else where[place]).append(st)
    rep = c.choose("ls_repeat", list(range(len(LS_REPEATS))))
    if LS_REPEATS[rep]:
        where[c.choose("ls_repeat_place", PLACES)].append(LS_REPEATS[rep])
    photos = c.choose("photos", [[], ["yes"], ["no"], ["yes", "no"], ["no", "yes"], ["no", "no", "yes"], ["yes", "yes", "no", "yes"]])
    for i, f in enumerate(photos):
        where[PLACES[(i + c.choose("photos_place", [0, 1, 2])) % 3]].append(["Photos", f])
    if need_alias_myrho:
        where[c.choose("myrho_alias_place", ["after", "before"])].append(["Alias", "MyRho", "rho0"])
    return pre + [BASE_BLOCKS[0]] + mid + [BASE_BLOCKS[1]] + post


def compare_globals(ast, p, sem=None):
    sem = sem or decmodel.semantics(ast)
    got = decobs.globals_of(p)
    fails = []
    for key in ("aliases", "charge_conjugates", "definitions", "decays2copy", "cdecays", "model_aliases", "pythia",
                "jetset", "lineshapePW", "photos"):
        st, val = got[key]
        if st != "ok" or typed(val) != typed(sem[key]):
            fails.append((f"global:{key}", f"{key}: got {got[key]}, expected {sem[key]}"))
    st, val = got["lineshape"]
    if sem["lineshape"] is None:
        if st != "exc":
            fails.append(("global:lineshape-repeat-accepted", f"a repeated lineshape setting was not reported as an error: {val}"))
    elif st != "ok" or typed(val) != typed(sem["lineshape"]):
        fails.append(("global:lineshape", f"lineshape settings: got {got['lineshape']}, expected {sem['lineshape']}"))
    st, val = got["particles"]
    exp = sem["particles"]
    ok = st == "ok" and set(val) == set(exp)
    if ok:
        for n, d in exp.items():
            g = val[n]
            if set(g) != {"mass", "width"} or not isinstance(g["mass"], float) or g["mass"] != d["mass"] \
                    or not isinstance(g["width"], float) or not math.isclose(g["width"], d["width"], rel_tol=1e-12, abs_tol=0.0):
                ok = False
    if not ok:
        fails.append(("global:particles", f"particle definitions: got {got['particles']}, expected {exp}"))
    return fails


END_COMMENT = "  # End of it; the End"


def check(ast, entry="string"):
    """entry: 'string' (from_string), 'file' (the file-name constructor), 'file+comments' (file, every line followed
    by a comment that contains the word End: the file constructor filters the End line by its text)."""
    text = decmodel.render(ast)
    try:
        if entry == "string":
            p = decobs.parse_text(text)
        else:
            import os
            import tempfile
            if entry == "file+comments":
                text = "\n".join(ln + END_COMMENT if ln.strip() else ln for ln in text.split("\n"))
            fd, path = tempfile.mkstemp(suffix=".dec", prefix="c07_")
            try:
                with os.fdopen(fd, "wb") as f:
                    f.write(text.encode("utf8"))
                p = decobs.parse_files([path])
            finally:
                os.unlink(path)
    except Exception as e:  # noqa: BLE001
        return [(f"parse-exception:{type(e).__name__}" + ("" if entry == "string" else "@" + entry), f"{e!s:.300}\n{text}")]
    fails = compare_globals(ast, p)
    if fails:
        fails = [(s + ("" if entry == "string" else "@" + entry), d + "\n" + text) for s, d in fails]
    return fails


# ---- histories of parses in ONE process: files that re-use the same names with different meanings -------------
def variant_file(i):
    tgt = ["rho0", "K*0", "phi", "D*+"][i]
    return [
        ["Alias", "MyRes", tgt], ["Particle", "MyRes", ["0.77", "0.9", "1.02", "2.01"][i], None], ["Particle", "rho0", "0.7", None if i % 2 else "0.15"],
        ["ChargeConj", "CcA", f"CcB{i}"], ["Define", "dv", str(i + 1)], BASE_BLOCKS[0],
        ["CopyDecay", "Cp", ["A0", "B+"][i % 2]], ["CDecay", ["anti-Zq", "Zr-"][i % 2]],
        ["Pythia", "PythiaBothParam", "ParticleDecays", "mixB", ["off", "on", "1", "word"][i]], ["JetSetPar", "PARJ(21)", ["0", "0.36", "5", "-1."][i]],
        ["LS", ["LSFLAT", "LSNONRELBW"][i % 2], "MyRes"], ["BlattWeisskopf", "MyRes", str(i + 2)], ["ChangeMass", "ChangeMassMin", "MyRes", f"0.{i+1}"],
        ["IncFactor", "IncludeBirthFactor", "MyRes", ["yes", "no"][i % 2]], ["SetLineshapePW", "D_1+", "D*+", "pi0", str(i)],
        BASE_BLOCKS[1], ["ModelAlias", "MAl", ["SVS", "VSS", "HELAMP", "PHSP"][i], [None, ["1.0"], ["dv", "w"], None][i]],
    ] + ([["Photos", "yes"]] if i % 2 else []) + ([["Photos", "no"]] if i == 3 else [])


FILE_OPS = [(i,) for i in range(4)]


def run_file_history(hist):
    from props.deccommon import compare_tables
    fails = []
    for step, (i,) in enumerate(hist):
        ast = variant_file(i)
        text = decmodel.render(ast)
        try:
            p = decobs.parse_text(text)
            f = compare_globals(ast, p) + compare_tables(ast, p)
        except Exception as e:  # noqa: BLE001
            f = [(f"exception:{type(e).__name__}", repr(e))]
        if step == len(hist) - 1:
            fails = [(s_ + "@history", f"files parsed in one process: {[h[0] for h in hist]}; for the last one: {d}") for s_, d in f]
    return {"canon": ("files", len(fails) > 0), "fails": fails, "enabled": FILE_OPS, "outcome": "F" if fails else "ok"}


def work(items):
    fails, outs = [], set()
    for origin, ndev, ast in items:
        entry = origin[-1] if origin and origin[-1] in ("file", "file+comments") else "string"
        f = check(ast, entry)
        for sig, d in f:
            fails.append(("ast", {"ast": ast, "origin": origin, "entry": entry}, sig, d, ndev))
        outs.add("F" if f else short_hash({k: v for k, v in decmodel.semantics(ast).items() if k != "tables"}))
    return {"fails": fails, "outcomes": outs, "traces": len(items)}


def exec_case(kind, payload):
    if kind == "files":
        from mc.core import run_forked
        return run_forked(run_file_history, tuple(tuple(o) for o in payload["history"]))["fails"]
    return check(payload["ast"], payload.get("entry", "string"))


def photos_sequences(maxn):
    for n in range(0, maxn + 1):
        for seq in itertools.product(["yes", "no"], repeat=n):
            for pos in itertools.product(range(3), repeat=n):
                pre, mid, post = [], [], []
                for f, q in zip(seq, pos):
                    (pre, mid, post)[q].append(["Photos", f])
                yield ["photos", list(seq), list(pos)], pre + [BASE_BLOCKS[0]] + mid + [BASE_BLOCKS[1]] + post


def label_sweep():
    """Every label of the alphabet in every naming role of every statement kind (one file per ~40 labels)."""
    for i, lab in enumerate(labels()):
        ast = [
            ["Alias", f"{lab}a{i}", lab], ["ChargeConj", lab, lab + "c"], ["Define", f"{lab}d{i}", "1.5"],
            ["CopyDecay", f"{lab}y{i}", lab], ["CDecay", f"{lab}z{i}"], ["Particle", f"{lab}p{i}", "1.0", "2.0"],
            ["LS", "LSFLAT", lab], ["BlattWeisskopf", lab + "b", "1"], ["ChangeMass", "ChangeMassMin", lab + "m", "1"],
            ["IncFactor", "IncludeBirthFactor", lab + "f", "yes"], ["SetLineshapePW", lab, lab + "1", lab + "2", "3"],
            ["Pythia", "PythiaBothParam", lab, lab, lab if lab[0] not in "0123456789+-." else "w"],
        ]
        yield ["label", lab], ast


def numeric_sweep():
    for i, f in enumerate(numeric_forms()):
        yield ["numeric", f], [
            ["Define", f"d{i}", f], ["Particle", f"p{i}", f, f], ["BlattWeisskopf", f"b{i}", f],
            ["ChangeMass", "ChangeMassMax", f"c{i}", f], ["Pythia", "PythiaBothParam", "M", f"p{i}", f],
            ["JetSetPar", f"PARU({i})", f],
        ]


def run(ctx):
    from mc.bfs import bfs
    depth = 3 if ctx.thorough else 2
    bfs(ctx, "files-parsed-in-one-process", run_file_history, depth, depth, "files",
        payload_of=lambda h: {"history": [list(o) for o in h]}, chunk=2, isolate=True)
    bound = 3 if ctx.thorough else 2
    stats = {}
    items = [(["dbe", list(ch)], nd, ast) for ch, nd, ast in dbe.explore(gen, bound, stats)]
    n_dbe = len(items)
    ph = [(o, 0, a) for o, a in photos_sequences(4 if ctx.thorough else 3)]
    items += ph
    ctx.log(f"{n_dbe} scenarios with <= {bound} deviations + {len(ph)} PHOTOS-flag sequences")
    ctx.sample({"origin": items[0][0], "text": decmodel.render(items[0][2])})
    ctx.rng.shuffle(items)
    run_tasks(ctx, work, [items[i:i + 40] for i in range(0, len(items), 40)])
    ctx.count(states=stats["nodes"] + len(ph), transitions=stats["choices"] + sum(len(a) for _o, _n, a in ph))
    ctx.part("dbe", scenarios=n_dbe, deviation_bound=bound, per_dimension_max=stats["per_dimension_max"])
    ctx.part("photos-sequences", files=len(ph), max_flags=4 if ctx.thorough else 3, complete=True)
    # the other entry point: the same scenarios (<= 1 deviation, all PHOTOS sequences) through the file-name constructor,
    # plain and with a comment containing the word End after every line
    small = [(o, nd, a) for o, nd, a in items if nd <= 1]
    via_file = [(list(o) + [e], nd, a) for o, nd, a in small for e in ("file", "file+comments")]
    run_tasks(ctx, work, [via_file[i:i + 40] for i in range(0, len(via_file), 40)])
    ctx.part("file-constructor-entry", scenarios=len(small), variants=["file", "file+comments"])
    # complete sweeps, packed (names are disjoint by construction) and unpacked
    for name, sweep, per in (("labels", list(label_sweep()), 40), ("numeric-forms", list(numeric_sweep()), 27)):
        packed = []
        for i in range(0, len(sweep), per):
            grp = sweep[i:i + per]
            packed.append((["pack", name, i], 0, [st for _o, a in grp for st in a]))
        single = [(o, 0, a) for o, a in sweep]
        packed += [(list(o) + [e], nd, a) for o, nd, a in packed for e in ("file", "file+comments")]
        run_tasks(ctx, work, [packed[i:i + 2] for i in range(0, len(packed), 2)])
        run_tasks(ctx, work, [single[i:i + 40] for i in range(0, len(single), 40)])
        ctx.count(states=len(sweep), transitions=sum(len(a) for _o, a in sweep))
        ctx.part(name, cases=len(sweep), complete=True)
    ctx.extra["bound_completed"] = {"deviations": bound}
    ctx.extra["excluded"] = ["Particle statements without width for names whose reference width is unknown",
                             "Pythia values with a leading digit/sign/dot that are not numbers"]
