"""C08 — copied and derived tables are independent; queries never change the parser.

Part A (E2): CopyDecay clause against the reference semantics.
Part B (E1): BFS over histories of public queries on one DecFileParser, every returned value destructively mutated;
after every step (1) all answers equal those of a freshly parsed instance, (2) no two decay tables share any tree
node, child list or token object.
"""
from __future__ import annotations

import contextlib
import io
import itertools
import os

from lark import Tree

from mc import dbe, decobs
from mc.bfs import bfs
from mc.core import pmap, short_hash, run_tasks
from props.deccommon import check_ast
from ref import decmodel

REPO = os.environ.get("VERIF_REPO", "/repo")

# ------------------------------------------------------------------------------------------------
# Part A
OLD_LINES = [
    ["0.5", ["MyAntiD0", "pi+", "pi0"], 0, "MB", None],
    ["0.25", ["D-", "K+"], 1, "SVS", ["1.0", "a", "-a"]],
    ["0.125", ["K+", "K-"], 0, "MC", None],
    ["0.0625", [], 1, "PYTHIA", ["42"]],
    ["0.03125", ["K_S0", "K_S0", "Foo"], 0, "HELAMP", ["a", "zz"]],
]


def gen_copy(c):
    n_old = c.choose("old_lines", [2, 0, 1, 3, 5])
    copy_pos = c.choose("copy_position", ["after", "before"])
    n_copies = c.choose("n_copies", [1, 2, 3])
    cdecay_of_copy = c.flag("cdecay_from_copy")
    no_table = c.flag("copy_of_name_without_table")
    override = c.flag("later_copydecay_wins")
    old_is_alias = c.flag("old_is_alias")
    OLD = "MyB0" if old_is_alias else "B0"
    pre = [["Define", "a", "3"], ["ModelAlias", "MB", "HELAMP", ["a", "-a", "zz"]], ["ModelAlias", "MC", "PHSP", None],
           ["Alias", "MyD0", "D0"], ["Alias", "MyAntiD0", "anti-D0"], ["ChargeConj", "MyD0", "MyAntiD0"]]
    if old_is_alias:
        pre.append(["Alias", "MyB0", "B0"])
    block = ["Decay", OLD, OLD_LINES[:n_old]]
    copies = [["CopyDecay", f"MyCopy{j}", OLD] for j in range(n_copies)]
    other = ["Decay", "Other", [["1.0", ["x", "y"], 0, "PHSP", None]]]
    if override:
        copies = [["CopyDecay", "MyCopy0", "Other"]] + copies  # the later statement for MyCopy0 names OLD
    if no_table:
        copies.append(["CopyDecay", "MyNoSrc", "NoSuchDecay"])
    ast = list(pre)
    if copy_pos == "before":
        ast += copies + [block, other]
    else:
        ast += [block, other] + copies
    if cdecay_of_copy:
        ast += [["Alias", "MyCopy0bar", "anti-B0"], ["ChargeConj", "MyCopy0", "MyCopy0bar"], ["CDecay", "MyCopy0bar"]]
    return ast


def work_copy(items):
    fails, outs = [], set()
    for choices, ndev, ast in items:
        f = check_ast(ast)
        for sig, d in f:
            fails.append(("ast", {"ast": ast, "choices": choices}, sig, d + "\n" + decmodel.render(ast), ndev))
        outs.add("F" if f else short_hash(decmodel.semantics(ast)["tables"]))
    return {"fails": fails, "outcomes": outs, "traces": len(items)}


# ------------------------------------------------------------------------------------------------
# Part B
TXT0 = """Alias MyD0 D0
Alias MyAntiD0 anti-D0
ChargeConj MyD0 MyAntiD0
Define a 3
ModelAlias MB HELAMP a -a zz;
ModelAlias MC PHSP;
yesPhotos
Particle MyD0 1.8
JetSetPar MSTU(1)=0
PythiaBothParam A:b=off
LSFLAT rho0
SetLineshapePW D_1+ D*+ pi0 2
Decay B0
0.5 MyAntiD0 pi+ pi0 MB;
0.5 D- K+ PHOTOS MB;
0.1 K+ K- MC;
Enddecay
Decay MyD0
1.0 K- pi+ MB;
0.1 K+ K- pi0 pi0 MC;
Enddecay
Decay pi0
1.0 gamma gamma PHSP;
Enddecay
CDecay anti-B0
CopyDecay MyB B0
CDecay MyAntiD0
"""
TXT1 = """Define dm 0.5
ModelAlias MA VSS_BMIX dm;
Decay X
0.7 a b MA;
0.3 c PHOTOS SVS 1.0 dm;
Enddecay
Decay a
1.0 p q MA;
Enddecay
CopyDecay Y X
"""
TXT2 = """Alias S+ K+
Alias S- K-
ChargeConj S+ S-
Decay S+
0.6 mu+ nu_mu SLN;
0.4 pi+ pi0 PHSP;
Enddecay
CDecay S-
CopyDecay T+ S+
"""
FILES = [
    ("gen0", TXT0, ["B0", "MyB", "anti-B0", "MyAntiD0"], ["pi0", "MyAntiD0"]),
    ("gen1", TXT1, ["X", "Y", "a"], ["a"]),
    ("gen2", TXT2, ["S+", "S-", "T+"], ["pi0"]),
    ("tests/data/test_example_Dst.dec", None, ["D*+", "D0", "pi0"], ["pi0"]),
    ("tests/data/test_Bd2DstDst.dec", None, ["B0sig", "anti-B0sig", "MyD*-"], ["MyD0"]),
    ("tests/data/defs-aliases-chargeconj.dec", None, [], []),
]
GLOBAL_QUERIES = ["list_decay_mother_names", "dict_aliases", "dict_charge_conjugates", "dict_definitions", "dict_decays2copy",
                  "list_charge_conjugate_decays", "get_particle_property_definitions", "dict_pythia_definitions",
                  "dict_jetset_definitions", "dict_lineshape_settings", "list_lineshapePW_definitions", "global_photos_flag",
                  "dict_model_aliases", "__repr__"]


def file_text(fi):
    name, txt, _m, _s = FILES[fi]
    if txt is None:
        with open(os.path.join(REPO, name), encoding="utf8") as f:
            txt = f.read()
    return txt


def ops_for(fi):
    _n, _t, mothers, stable = FILES[fi]
    ops = []
    for m in mothers:
        ops += [["list_decay_modes", [m], {}], ["build_decay_chains", [m], {}], ["build_decay_chains", [m], {"stable_particles": stable}],
                ["expand_decay_modes", [m], {}], ["print_decay_modes", [m], {}],
                ["print_decay_modes", [m], {"scale": 0.5, "ascending": True, "print_model": False}]]
    ops.append(["list_decay_modes", ["NoSuchMother"], {}])
    ops += [[q, [], {}] for q in GLOBAL_QUERIES]
    ops += [["parse", [], {}], ["parse", [], {"include_ccdecays": False}]]
    return ops


def out(f, *a, **k):
    b = io.StringIO()
    with contextlib.redirect_stdout(b):
        f(*a, **k)
    return b.getvalue()


def _q(f, *a, **k):
    try:
        return f(*a, **k)
    except Exception as e:  # noqa: BLE001
        return "EXC " + type(e).__name__


def snapshot(p, stable):
    s = {"mothers": list(p.list_decay_mother_names()), "n": p.number_of_decays, "repr": repr(p)}
    for m in dict.fromkeys(s["mothers"]):
        s["modes " + m] = _q(p.list_decay_modes, m)
        s["chain " + m] = _q(p.build_decay_chains, m)
        s["chainS " + m] = _q(p.build_decay_chains, m, stable_particles=stable)
        s["exp " + m] = _q(p.expand_decay_modes, m)
        s["print " + m] = _q(out, p.print_decay_modes, m)
        s["printn " + m] = _q(out, p.print_decay_modes, m, normalize=True, print_model=False)
        s["details " + m] = _q(decobs.table_of, p, m)
    for q in GLOBAL_QUERIES[1:-1]:
        s[q] = _q(getattr(p, q))
    return repr(sorted(s.items()))


def node_ids(t, acc):
    acc.add(id(t))
    if isinstance(t, Tree):
        acc.add(id(t.children))
        for ch in t.children:
            node_ids(ch, acc)
    return acc


def hidden_state(p):
    """Fingerprint of everything the parser object holds (whatever its attributes are called), addresses removed."""
    import re
    names = set(getattr(type(p), "__slots__", ())) | set(getattr(p, "__dict__", {}))
    return [(a, re.sub(r" at 0x[0-9a-f]+", "", repr(getattr(p, a, None)))) for a in sorted(names)]


def sharing(p):
    """Pairs of decay tables (by mother name) that share a tree node, child list or token object."""
    sets = [(t.children[0].children[0].value, node_ids(t, set())) for t in p._parsed_decays]
    return [(a, b) for (a, x), (b, y) in itertools.combinations(sets, 2) if x & y]


def scribble(v, depth=0):
    """Destructive in-place mutation of whatever a query returned."""
    if isinstance(v, list):
        for x in list(v):
            scribble(x, depth + 1)
        v.append("JUNK")
        v[0] = "JUNK0"
    elif isinstance(v, dict):
        for x in list(v.values()):
            scribble(x, depth + 1)
        for k in list(v):
            if isinstance(v[k], (int, float, str)):
                v[k] = -1
        v["JUNK"] = 1
    elif isinstance(v, tuple):
        for x in v:
            scribble(x, depth + 1)


_REF = {}


def fresh(fi, cc=True):
    return decobs.parse_text(file_text(fi), include_cc=cc)


def ref_snapshot(fi, cc):
    """Answers of a freshly parsed instance. They are computed in a pristine forked process of their own (see run())
    and inherited by the history processes, so that whatever a history leaves behind in the process cannot leak into
    the reference it is compared with."""
    if (fi, cc) not in _REF:
        from mc.core import run_forked
        _REF[(fi, cc)] = run_forked(_compute_ref, (fi, cc))
    return _REF[(fi, cc)]


def _compute_ref(args):
    fi, cc = args
    return snapshot(fresh(fi, cc), FILES[fi][3])


def make_run_history(fi):
    ops = ops_for(fi)
    stable = FILES[fi][3]

    def run_history(hist, check_all=False):
        p = fresh(fi)
        cc = True
        fails = []
        n = len(hist)
        if n == 0:
            s1, s2 = snapshot(p, stable), snapshot(p, stable)
            if s1 != s2 or s1 != ref_snapshot(fi, True):
                fails.append(("answers-changed@snapshot", f"file {FILES[fi][0]}: asking every query twice on a fresh instance gives different answers"))
            if " EXC " in s1.replace("'EXC ", " EXC ") and "EXC DecayNotFound" not in s1:
                pass
        for step, op in enumerate(hist):
            name, a, k = op
            k = dict(k)
            if name == "parse":
                cc = k.get("include_ccdecays", True)
            try:
                with contextlib.redirect_stdout(io.StringIO()):
                    r = getattr(p, name)(*a, **k)
                scribble(r)
            except Exception as e:  # noqa: BLE001
                if type(e).__name__ != "DecayNotFound":
                    fails.append((f"query-exception:{type(e).__name__}@{name}", f"{op} raised {e!r} after {hist[:step]}"))
                    break
            if not (step == n - 1 or check_all):
                # asking every query is itself part of the history (queries may leave state behind)
                snapshot(p, stable)
            if step == n - 1 or check_all:
                snap = snapshot(p, stable)
                if snap != ref_snapshot(fi, cc):
                    fails.append((f"answers-changed@{name}", f"file {FILES[fi][0]}: after {[o[0] for o in hist[:step+1]]} (returned values scribbled on) the answers differ from a fresh instance; last op {op}"))
                sh = sharing(p)
                if sh:
                    fails.append(("tables-share-state", f"file {FILES[fi][0]}: after {[o[0] for o in hist[:step+1]]} tables {sh[:4]} share tree nodes / child lists / tokens"))
                if fails:
                    break
        hidden = (hidden_state(p), bool(sharing(p)))
        return {"canon": (snapshot(p, stable), short_hash(hidden)), "fails": fails, "enabled": ops, "outcome": (cc, len(fails))}

    return run_history


_RH = {}


def run_history_for(args):
    fi, hist = args
    if fi not in _RH:
        _RH[fi] = make_run_history(fi)
    return _RH[fi](hist)


class _Bound:
    """picklable callable bound to a file index (bfs passes run_history to forked workers)."""

    def __init__(self, fi):
        self.fi = fi

    def __call__(self, hist, check_all=False):
        if self.fi not in _RH:
            _RH[self.fi] = make_run_history(self.fi)
        return _RH[self.fi](hist, check_all) if check_all else _RH[self.fi](hist)


def exec_case(kind, payload):
    if kind == "ast":
        return check_ast(payload["ast"])
    if kind == "history":
        for cc in (True, False):
            ref_snapshot(payload["file"], cc)
        hist = tuple((o[0], list(o[1]), dict(o[2])) for o in payload["history"])
        return _Bound(payload["file"])(hist, True)["fails"]
    raise ValueError(kind)


def run(ctx):
    # Part A (the choice tree is small: complete product)
    bound = 7
    stats = {}
    items = [(list(ch), nd, ast) for ch, nd, ast in dbe.explore(gen_copy, bound, stats)]
    ctx.log(f"A: {len(items)} CopyDecay scenarios with <= {bound} deviations")
    run_tasks(ctx, work_copy, [items[i:i + 20] for i in range(0, len(items), 20)])
    ctx.count(states=stats["nodes"], transitions=stats["choices"])
    ctx.part("A-copydecay", scenarios=len(items), deviation_bound=bound, per_dimension_max=stats["per_dimension_max"])
    ctx.sample({"part": "A", "text": decmodel.render(items[-1][2])})
    # Part B
    files = range(len(FILES)) if ctx.thorough else range(4)
    for fi in files:
        for cc in (True, False):
            ref_snapshot(fi, cc)   # in the parent, before any history process is forked
        small = fi in (1, 2)
        forced = (3 if small else 2) if ctx.thorough else 2
        depth = (5 if small else 4) if ctx.thorough else 3
        bfs(ctx, f"B-history-{FILES[fi][0]}", _Bound(fi), depth, forced, "history",
            payload_of=lambda h, fi=fi: {"file": fi, "history": [list(o) for o in h]}, chunk=25, isolate=True)
    ctx.extra["bound_completed"] = {"copydecay_deviations": bound, "history_all_up_to": "2 (3 on the two smallest files in thorough)",
                                    "history_depth_hashed": "3 quick / 4-5 thorough"}
    ctx.extra["alphabet"] = "every public query x small argument domain, each followed by destructive mutation of the returned value; parse() with either switch"
    ctx.extra["excluded"] = ["grammar()/grammar_info() (accessors of the parser configuration)", "CopyDecay of a name that is itself a copy (documented: needs a Decay statement)"]
