"""C09 — decay chains are the faithful recursive unfolding of the decay tables (E2, shapes; DESIGN.md C09)."""
from __future__ import annotations

import os
import sys

from mc import decobs, shapes
from mc.core import pmap, short_hash, run_tasks
from mc.decobs import typed
from props.chaincommon import DERIVE_RENAME, ast_of_tables, tables_of_ast
from ref import chains, decmodel

REPO = os.environ.get("VERIF_REPO", "/repo")
MASTERS = ["src/decaylanguage/data/DECAY_LHCB.DEC", "src/decaylanguage/data/DECAY_BELLE2.DEC"]


def involved(t):
    s = set(t)
    for lines in t.values():
        for ds in lines:
            s.update(ds)
    return sorted(s)


def check_scenario(p, tables, t, tag, stable_sets, derive=False):
    """Compare build_decay_chains for every mother of the scenario and every stable set."""
    fails = []
    n = 0
    tabs = set(t)
    for m in t:
        mm = m + tag
        for S in stable_sets:
            Sr = [s + tag if s in tabs else (DERIVE_RENAME.get(s, s) if derive else s) for s in S]
            n += 1
            try:
                got = p.build_decay_chains(mm, stable_particles=Sr)
                gotc = chains.canon_chain(got)
            except Exception as e:  # noqa: BLE001
                fails.append((S, m, f"exception:{type(e).__name__}", f"build_decay_chains({mm}, {Sr}) raised {e!r}"))
                continue
            exp = chains.unfold(tables, mm, set(Sr))
            if typed(gotc) != typed(exp):
                depth_tag = "nested" if any(isinstance(x, tuple) for ln in exp[1] for x in ln[1]) else "flat"
                fails.append((S, m, f"chain-differs:{depth_tag}", f"build_decay_chains({mm}, stable={Sr}) = {got}\nexpected unfolding {exp}"))
    # a particle without a table raises the documented error
    for leaf in [x for x in involved(t) if x not in tabs][:2] + ["NoSuchParticle"]:
        n += 1
        try:
            p.build_decay_chains(leaf)
            fails.append(([], leaf, "no-DecayNotFound", f"build_decay_chains({leaf!r}) for a particle without table did not raise"))
        except decobs.DecayNotFound:
            pass
        except Exception as e:  # noqa: BLE001
            fails.append(([], leaf, f"wrong-exception:{type(e).__name__}", f"build_decay_chains({leaf!r}) raised {e!r} instead of DecayNotFound"))
    return fails, n


def run_one(t, all_subsets=True, derive=False):
    ast = ast_of_tables(t, rename=DERIVE_RENAME if derive else None, derive=derive)
    p = decobs.parse_text(decmodel.render(ast))
    tables = tables_of_ast(ast)
    names = involved(t)
    S = list(shapes.subsets(names)) if len(names) <= 6 and all_subsets else stable_sets_for(t)
    return check_scenario(p, tables, t, "", S, derive)


def stable_sets_for(t):
    names = involved(t)
    if len(names) <= 6:
        return list(shapes.subsets(names))
    tabs = [n for n in names if n in t]
    return [[]] + [[n] for n in names] + [tabs, tabs[1:], names] + [list(c) for c in __import__("itertools").combinations(tabs, 2)]


def work_pack(items):
    """items: list of table sets; packed into one file with names renamed apart."""
    fails, outs = [], set()
    derive = bool(items) and isinstance(items[0], list) and items[0][0] == "derive"
    if derive:
        items = [it[1] for it in items]
    asts = [ast_of_tables(t, f"_{i}", DERIVE_RENAME if derive else None, derive) for i, t in enumerate(items)]
    big = [st for a in asts for st in a]
    ntr = 0
    try:
        p = decobs.parse_text(decmodel.render(big))
        tables = tables_of_ast(big)
        packed_fail = []
        for i, t in enumerate(items):
            f, n = check_scenario(p, tables, t, f"_{i}", stable_sets_for(t), derive)
            ntr += n
            if f:
                packed_fail.append((i, f))
            outs.add(short_hash([sorted((k, v) for k, v in t.items())]))
    except Exception as e:  # noqa: BLE001
        packed_fail = [(None, [([], "?", f"pack-exception:{type(e).__name__}", repr(e))])]
    for i, f in packed_fail:
        cands = [items[i]] if i is not None else items
        confirmed = False
        for t in cands:
            try:
                f1, _n = run_one(t, derive=derive)
            except Exception as e:  # noqa: BLE001
                f1 = [([], "?", f"exception:{type(e).__name__}", repr(e))]
            for S, m, sig, d in f1:
                confirmed = True
                fails.append(("tables", {"tables": t, "stable": S, "mother": m, "derive": derive}, sig + (":derived" if derive else ""), d, len(S) + sum(len(v) for v in t.values())))
        if not confirmed:
            S, m, sig, d = f[0]
            fails.append(("pack", {"tables_list": items}, sig + "@pack", d, 10 ** 6))
    return {"fails": fails, "outcomes": outs, "traces": ntr}


def exec_case(kind, payload):
    if kind == "tables":
        f, _n = run_one(payload["tables"], derive=payload.get("derive", False))
        if payload.get("derive"):
            return [(sig + ":derived", d) for _S, _m, sig, d in f]
        return [(sig, d) for _S, _m, sig, d in f]
    if kind == "pack":
        r = work_pack(payload["tables_list"])
        return [(f[2], f[3]) for f in r["fails"]]
    if kind == "master":
        return check_master(payload["file"], [payload["mother"]])[0]
    raise ValueError(kind)


# ------------------------------------------------------------------------------------------------
_MASTER = {}


def master(fn):
    if fn not in _MASTER:
        sys.setrecursionlimit(20000)
        p = decobs.parse_files([os.path.join(REPO, fn)])
        tables = {m: decobs.table_of(p, m) for m in dict.fromkeys(p.list_decay_mother_names())}
        _MASTER[fn] = (p, tables)
    return _MASTER[fn]


def check_master(fn, mothers, limit=20000):
    p, tables = master(fn)
    fails = []
    n = 0
    memo = {}
    for m in mothers:
        try:
            size = chains.unfolded_size(tables, m, (), memo)
        except RecursionError:
            continue
        if size > limit:
            continue
        direct = sorted({d for ln in tables[m] for d in ln[1]})
        for S in [[]] + [[d] for d in direct if d in tables][:6] + [direct]:
            n += 1
            got = chains.canon_chain(p.build_decay_chains(m, stable_particles=S))
            exp = chains.unfold(tables, m, set(S))
            if typed(got) != typed(exp):
                fails.append(("chain-differs:master", f"{fn}: build_decay_chains({m}, stable={S}) differs from the unfolding of the file's own tables"))
    return fails, n


def work_master(args):
    fn, mothers = args
    fails = []
    ntr = 0
    for m in mothers:
        f, n = check_master(fn, [m])
        ntr += n
        for sig, d in f:
            fails.append(("master", {"file": fn, "mother": m}, sig, d, 100))
    return {"fails": fails, "outcomes": {short_hash([fn, len(mothers)])}, "traces": ntr}


def run(ctx):
    sets = list(shapes.table_sets(2 if ctx.thorough else 1)) + list(shapes.spine_table_sets())
    ctx.log(f"{len(sets)} table sets, every subset of the involved names as stable set, packed 50 per file")
    ctx.sample({"tables": sets[len(sets) // 3], "text": decmodel.render(ast_of_tables(sets[len(sets) // 3]))})
    ctx.sample({"tables": sets[-4], "text": decmodel.render(ast_of_tables(sets[-4]))})
    order = list(range(len(sets)))
    ctx.rng.shuffle(order)
    packs = [[sets[j] for j in order[i:i + 50]] for i in range(0, len(order), 50)]
    run_tasks(ctx, work_pack, packs)
    # the same table sets with the table of X created by CopyDecay and that of Y by CDecay
    dsets = [t for t in sets if "X" in t or "Y" in t][:: (1 if ctx.thorough else 2)]
    run_tasks(ctx, work_pack, [[["derive", t] for t in dsets[i:i + 50]] for i in range(0, len(dsets), 50)])
    ctx.part("derived-tables", table_sets=len(dsets), note="X via CopyDecay, Y via CDecay")
    # every <=1-line-per-particle scenario and all spines also unpacked
    small = [t for t in sets if sum(len(v) for v in t.values()) <= 2][: 400 if not ctx.thorough else None] + list(shapes.spine_table_sets())
    run_tasks(ctx, work_unpacked, [small[i:i + 10] for i in range(0, len(small), 10)])
    ctx.count(states=len(sets), transitions=sum(sum(len(v) + 1 for v in t.values()) for t in sets))
    ctx.part("generated", table_sets=len(sets), unpacked=len(small), level=2 if ctx.thorough else 1, complete=True)
    if ctx.thorough:
        for fn in MASTERS:
            p, tables = master(fn)
            ms = list(tables)
            chunks = [(fn, ms[i:i + 12]) for i in range(0, len(ms), 12)]
            run_tasks(ctx, work_master, chunks)
            ctx.count(states=len(ms), transitions=len(ms))
            ctx.part("master:" + os.path.basename(fn), mothers=len(ms), node_limit=20000)
    ctx.extra["bound_completed"] = {"universe": "M>X>Y(>Z)", "max_daughters": 3, "max_lines": "2 (+ spines: 8 lines, 7 daughters, depth 4)"}
    ctx.extra["excluded"] = ["cyclic table sets"]


def work_unpacked(items):
    fails, outs = [], set()
    ntr = 0
    for t in items:
        try:
            f, n = run_one(t)
        except Exception as e:  # noqa: BLE001
            f, n = [([], "?", f"exception:{type(e).__name__}", repr(e))], 1
        ntr += n
        for S, m, sig, d in f:
            fails.append(("tables", {"tables": t, "stable": S, "mother": m}, sig, d, len(S) + sum(len(v) for v in t.values())))
        outs.add(short_hash([sorted((k, v) for k, v in t.items()), "u"]))
    return {"fails": fails, "outcomes": outs, "traces": ntr}
