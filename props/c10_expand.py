"""C10 — expanding decay modes enumerates every complete decay path exactly once (E2, shapes; DESIGN.md C10)."""
from __future__ import annotations

import collections
import os
import sys

from mc import decobs, shapes
from mc.core import pmap, short_hash, run_tasks
from props.chaincommon import ast_of_tables, tables_of_ast
from props.c09_chains import MASTERS, master
from ref import chains, decmodel

SYNTAX = chains.DescriptorSyntax("{mother} -> {daughters}", "({mother} -> {daughters})")
ALIAS_VARIANTS = {
    "none": {},
    "top": {"M": ("MyM", "B0")},
    "nested": {"X": ("MyX", "K_1(1270)+"), "Y": ("MyY", "D*(2010)+")},
    "stable": {"p": ("MyP", "pi+"), "q": ("MyQ", "UnknownParticle0")},
    "all": {"M": ("MyM", "B0"), "X": ("MyX", "K_1(1270)+"), "Y": ("MyY", "D*(2010)+"), "Z": ("MyZ", "a_1(1260)+"), "p": ("MyP", "pi+")},
    "swapped": {"X": ("MyX", "p"), "p": ("MyP", "X")},  # alias targets that look like other names of the file
    "same-target": {"X": ("MyX", "D0"), "Y": ("MyY", "D0"), "Z": ("MyZ", "D0")},  # several decaying aliases of one particle
    "alias-of-table": {"X": ("MyX", "@Y")},  # a decaying alias of a name that has its own (different) Decay block
    # no alias at all, only other names: the mother's name contains the name of a decaying daughter (eta' / eta)
    "name-contains-X": {"M": ("pX", None)},
    "name-contains-Y": {"M": ("qY", None)},
}


def build(t, alias, tag=""):
    """AST + alias dict of a scenario (alias names get the tag, targets do not)."""
    if alias == "derived":
        from props.chaincommon import DERIVE_RENAME
        return ast_of_tables(t, tag, DERIVE_RENAME, derive=True)
    amap = ALIAS_VARIANTS[alias]
    rename = {k: v[0] for k, v in amap.items()}
    ast = ast_of_tables(t, tag, rename)
    tabs = set(t)
    al = []
    for k, (alias_name, target) in amap.items():
        nm = alias_name + tag if k in tabs else alias_name
        used = k in tabs or any(k in ds for lines in t.values() for ds in lines)
        if used and target is not None:
            if target.startswith("@"):
                # the aliased name is another decaying particle of the same file
                tk = target[1:]
                target = rename.get(tk, tk) + (tag if tk in tabs else "")
            al.append(["Alias", nm, target])
    return al + ast


def check_scenario(p, tables, aliases, mothers):
    fails = []
    n = 0
    for m in mothers:
        n += 1
        try:
            got = p.expand_decay_modes(m)
        except Exception as e:  # noqa: BLE001
            fails.append((m, f"exception:{type(e).__name__}", f"expand_decay_modes({m}) raised {e!r}"))
            continue
        exp = chains.paths(tables, m, aliases)
        cnt = chains.n_paths(tables, m)
        assert cnt == len(exp)
        if len(got) != cnt:
            fails.append((m, "path-count", f"expand_decay_modes({m}) returned {len(got)} descriptors, expected {cnt} (sum over lines of the product over daughters)\n{got[:6]}"))
            continue
        try:
            read = collections.Counter(SYNTAX.read(s) for s in got)
        except Exception as e:  # noqa: BLE001
            fails.append((m, "unreadable-descriptor", f"{e!r} in {got[:4]}"))
            continue
        want = collections.Counter(exp)
        if read != want:
            missing = list((want - read).elements())[:2]
            extra = list((read - want).elements())[:2]
            fails.append((m, "path-multiset", f"expand_decay_modes({m}): missing {missing}, unexpected {extra}"))
    return fails, n


def run_one(t, alias):
    ast = build(t, alias)
    p = decobs.parse_text(decmodel.render(ast))
    sem = decmodel.semantics(ast)
    mothers = [st[1] for st in ast if st[0] == "Decay"]
    return check_scenario(p, sem["tables"], sem["aliases"], mothers)


def work_pack(items):
    fails, outs = [], set()
    ntr = 0
    asts = [build(t, alias, f"_{i}") for i, (t, alias) in enumerate(items)]
    big = [st for a in asts for st in a]
    bad = []
    try:
        p = decobs.parse_text(decmodel.render(big))
        sem = decmodel.semantics(big)
        for i, a in enumerate(asts):
            f, n = check_scenario(p, sem["tables"], sem["aliases"], [st[1] for st in a if st[0] == "Decay"])
            ntr += n
            if f:
                bad.append((i, f))
            outs.add(short_hash([items[i][1], sorted(items[i][0].items())]))
    except Exception as e:  # noqa: BLE001
        bad = [(None, [("?", f"pack-exception:{type(e).__name__}", repr(e))])]
    for i, f in bad:
        confirmed = False
        for t, alias in ([items[i]] if i is not None else items):
            try:
                f1, _n = run_one(t, alias)
            except Exception as e:  # noqa: BLE001
                f1 = [("?", f"exception:{type(e).__name__}", repr(e))]
            for m, sig, d in f1:
                confirmed = True
                fails.append(("tables", {"tables": t, "alias": alias}, sig, d + "\n" + decmodel.render(build(t, alias)), sum(len(v) for v in t.values())))
        if not confirmed:
            m, sig, d = f[0]
            fails.append(("pack", {"items": [[t, a] for t, a in items]}, sig + "@pack", d, 10 ** 6))
    return {"fails": fails, "outcomes": outs, "traces": ntr}


def exec_case(kind, payload):
    if kind == "tables":
        f, _n = run_one(payload["tables"], payload["alias"])
        return [(sig, d) for _m, sig, d in f]
    if kind == "pack":
        r = work_pack([(t, a) for t, a in payload["items"]])
        return [(f[2], f[3]) for f in r["fails"]]
    if kind == "master":
        return work_master((payload["file"], [payload["mother"]]))["fails_plain"]
    raise ValueError(kind)


def lines_family():
    Xp = [["p"], ["q"], ["Y"], ["p", "q"]]
    Yp = [["p"], ["q"], ["p", "p"], []]
    for nx in range(0, 5):
        for ny in range(0, 5):
            yield {"M": [["X", "Y"], ["X", "X", "p"], ["Y"]], "X": Xp[:nx], "Y": Yp[:ny]}
    yield {"M": []}
    yield {"M": [[]]}
    yield {"M": [[], ["p"], []]}


def work_master(args):
    fn, mothers = args
    sys.setrecursionlimit(20000)
    p, tables = master(fn)
    aliases = p.dict_aliases()
    fails, plain = [], []
    memo = {}
    n = 0
    for m in mothers:
        try:
            chains.unfolded_size(tables, m, (), {})
        except RecursionError:
            continue
        cnt = chains.n_paths(tables, m, memo)
        if cnt > 50000:
            continue
        n += 1
        got = p.expand_decay_modes(m)
        sig = d = None
        if len(got) != cnt:
            sig, d = "path-count:master", f"{fn}: expand_decay_modes({m}) returned {len(got)} descriptors, expected {cnt}"
        elif cnt <= 3000:
            want = collections.Counter(chains.paths(tables, m, aliases))
            read = collections.Counter(SYNTAX.read(s) for s in got)
            if want != read:
                sig, d = "path-multiset:master", f"{fn}: expand_decay_modes({m}) differs from the paths of the file's own tables"
        if sig:
            fails.append(("master", {"file": fn, "mother": m}, sig, d, 100))
            plain.append((sig, d))
    return {"fails": fails, "fails_plain": plain, "outcomes": {short_hash([fn, mothers[:1]])}, "traces": n}


def run(ctx):
    base = list(shapes.table_sets(2 if ctx.thorough else 1))
    spines = list(shapes.spine_table_sets()) + list(lines_family())
    items = [(t, "none") for t in base] + [(t, a) for t in spines for a in ALIAS_VARIANTS]
    items += [(t, "derived") for t in base[:: (1 if ctx.thorough else 2)] if "X" in t or "Y" in t]
    # alias variants on a slice of the generated sets (all of them in thorough)
    step = 1 if ctx.thorough else 7
    for a in ("top", "nested", "stable", "all", "swapped", "same-target", "alias-of-table", "name-contains-X", "name-contains-Y"):
        items += [(t, a) for t in base[(ctx.seed % step)::step]]
    ctx.log(f"{len(items)} (table set, alias variant) scenarios, packed 40 per file")
    ctx.sample({"tables": spines[1], "alias": "all", "text": decmodel.render(build(spines[1], "all"))})
    order = list(range(len(items)))
    ctx.rng.shuffle(order)
    packs = [[items[j] for j in order[i:i + 40]] for i in range(0, len(order), 40)]
    run_tasks(ctx, work_pack, packs)
    small = [(t, a) for t in spines for a in ALIAS_VARIANTS]
    run_tasks(ctx, work_unpacked, [small[i:i + 8] for i in range(0, len(small), 8)])
    ctx.count(states=len(items), transitions=sum(sum(len(v) + 1 for v in t.values()) for t, _a in items))
    ctx.part("generated", scenarios=len(items), unpacked=len(small), alias_variants=list(ALIAS_VARIANTS), complete=True)
    if ctx.thorough:
        for fn in MASTERS:
            _p, tables = master(fn)
            ms = list(tables)
            for r in pmap(work_master, [(fn, ms[i:i + 10]) for i in range(0, len(ms), 10)], ctx.workers):
                r.pop("fails_plain", None)
                ctx.absorb(r)
            ctx.count(states=len(ms), transitions=len(ms))
            ctx.part("master:" + os.path.basename(fn), mothers=len(ms), path_limit=50000, multiset_limit=3000)
    ctx.extra["bound_completed"] = {"universe": "M>X>Y(>Z)", "lines_per_particle": "0..4", "depth": 4}
    ctx.extra["excluded"] = ["cyclic table sets", "labels starting with '('"]


def work_unpacked(items):
    fails, outs = [], set()
    ntr = 0
    for t, alias in items:
        try:
            f, n = run_one(t, alias)
        except Exception as e:  # noqa: BLE001
            f, n = [("?", f"exception:{type(e).__name__}", repr(e))], 1
        ntr += n
        for _m, sig, d in f:
            fails.append(("tables", {"tables": t, "alias": alias}, sig, d + "\n" + decmodel.render(build(t, alias)), sum(len(v) for v in t.values())))
        outs.add(short_hash([alias, sorted(t.items()), "u"]))
    return {"fails": fails, "outcomes": outs, "traces": ntr}
