"""C11 — class, dictionary and parser forms of a decay convert into each other losslessly (E2, shapes)."""
from __future__ import annotations

import collections
import copy
import itertools

from decaylanguage import DaughtersDict, DecayChain, DecayMode
from particle import ParticleNotFound

from mc import decobs, shapes
from mc.core import pmap, short_hash, run_tasks
from props.chaincommon import ast_of_tables
from ref import chains, conj, decmodel

REAL = ["D*+", "D0", "K_1(1270)+", "f'_0", "anti-K*0", "Upsilon(4S)"]
ARBITRARY = ["Q/1", "x~y", "A.b", "z(1)(2)-", "_u*", "W+-"]
LEAFSETS = [("pi+", "K_S0"), ("gamma", "Foo'bar")]
METAS = [
    {},
    {"model": "PHSP"},
    {"model": "SVS", "model_params": [1.0, "w"]},
    {"model": "X", "study": {"a": [1, 2, {"b": None}]}, "year": 2019, "zfit": {"B0": "gauss"}},
    {"model_params": [0.5], "note": ""},
    # user keys whose top-level value is None / False / 0 / an empty container: still metadata
    {"model": "PHSP", "reviewed_by": None, "checked": False, "n": 0, "tags": [], "extra": {}},
]
FS_NAMES = ["K+", "K-", "pi0", "gamma"]


# ------------------------------------------------------------------------------------------------ (a)
def check_final_state(combo):
    """All constructors of one final state agree; order-insensitive; multiplicities counted; canonical order."""
    fails = []
    c = collections.Counter(combo)
    k = len(combo)
    forms = {
        "list": DaughtersDict(list(combo)),
        "string": DaughtersDict(" ".join(combo)) if combo else DaughtersDict(),
        "dict": DaughtersDict(dict(c)),
        "dict+zero": DaughtersDict({**c, "zero": 0, "neg": -1}),
        "tuple": DaughtersDict(tuple(combo)),
        "copy": DaughtersDict(DaughtersDict(list(combo))),
        "reversed": DaughtersDict(list(reversed(combo))),
        "string-spaces": DaughtersDict("  " + "   ".join(combo) + " ") if combo else DaughtersDict(""),
    }
    try:
        ids = [conj.EVT_NAME2ID[n] for n in combo]
        forms["pdgids"] = DecayMode.from_pdgids(0.5, ids).daughters
        forms["DecayMode-list"] = DecayMode(0.5, list(combo)).daughters
        forms["DecayMode-str"] = DecayMode(0.5, " ".join(combo)).daughters if combo else DecayMode(0.5).daughters
        forms["DecayMode-fs"] = DecayMode.from_dict({"bf": 0.5, "fs": list(combo)}).daughters
    except KeyError:
        pass
    ref = dict(c)
    for name, f in forms.items():
        ok = dict(f) == ref and len(f) == k and f.to_list() == sorted(combo) and f.to_string() == " ".join(sorted(combo)) \
            and sorted(f) == sorted(combo) and f == forms["list"]
        if not ok:
            fails.append((f"final-state:{name}", f"final state {combo} built as {name}: {dict(f)} len={len(f)} to_list={f.to_list()}, expected {ref}"))
    return fails


def check_mode(combo, mi):
    md = METAS[mi]
    fails = []
    dm = DecayMode(0.25, list(combo), **copy.deepcopy(md))
    d = dm.to_dict()
    exp_meta = {"model": "", "model_params": ""}
    exp_meta.update(md)
    exp = {"bf": 0.25, "fs": sorted(combo)}
    exp.update(exp_meta)
    if d != exp:
        fails.append(("mode-to_dict", f"DecayMode(0.25, {combo}, **{md}).to_dict() = {d}, expected {exp}"))
    try:
        dm2 = DecayMode.from_dict(copy.deepcopy(d))
        if not (dm2.bf == dm.bf and dm2.daughters == dm.daughters and dm2.metadata == exp_meta and dm2.to_dict() == d):
            fails.append(("mode-roundtrip", f"from_dict(to_dict()) of DecayMode({combo}, {md}) gives bf={dm2.bf} daughters={dict(dm2.daughters)} metadata={dm2.metadata}"))
    except Exception as e:  # noqa: BLE001
        fails.append((f"mode-roundtrip-exception:{type(e).__name__}", f"{e!r} for {d}"))
    return fails


def work_modes(items):
    fails, outs = [], set()
    for kind, arg in items:
        f = exec_case(kind, arg)
        for sig, d in f:
            fails.append((kind, arg, sig, d, len(str(arg))))
        outs.add(short_hash([kind, arg]))
    return {"fails": fails, "outcomes": outs, "traces": len(items)}


def check_pdgid(name):
    i = conj.EVT_NAME2ID[name]
    fails = []
    md = {"model": "PHSP", "x": [1, {"a": 2}]}
    for ids, want in (([i], {name: 1}), ([i, i], {name: 2}), ((i, i, i), {name: 3})):
        try:
            dm = DecayMode.from_pdgids(0.5, ids, **copy.deepcopy(md))
            if dict(dm.daughters) != want or dm.bf != 0.5 or dm.metadata != {"model": "PHSP", "model_params": "", "x": [1, {"a": 2}]}:
                fails.append(("from_pdgids", f"from_pdgids(0.5, {ids}) = {dict(dm.daughters)} {dm.metadata}, expected {want}"))
        except Exception as e:  # noqa: BLE001
            fails.append((f"from_pdgids-exception:{type(e).__name__}", f"from_pdgids({ids}) for EvtGen name {name}: {e!r}"))
    return fails


def check_unknown_pdgid(i):
    try:
        DecayMode.from_pdgids(0.5, [211, i])
    except ParticleNotFound:
        return []
    except Exception as e:  # noqa: BLE001
        return [(f"unknown-id-exception:{type(e).__name__}", f"from_pdgids with unknown ID {i} raised {e!r} instead of ParticleNotFound")]
    return [("unknown-id-accepted", f"from_pdgids accepted the unknown ID {i}")]


# ------------------------------------------------------------------------------------------------ (b)
def concrete(decays0, naming):
    k = len(decays0) - 1
    pool = REAL if naming % 2 == 0 else ARBITRARY
    ren = {f"P{i}": pool[i] for i in range(k + 1)}
    a, b = LEAFSETS[(naming // 2) % 2]
    ren.update(a=a, b=b)
    return {ren[n]: collections.Counter({ren[d]: m for d, m in dd.items()}) for n, dd in decays0.items()}, ren["P0"]


def check_chain(decays0, naming, perm_index=0):
    decays, mother = concrete(decays0, naming)
    names = list(decays)
    fails = []
    modes = {}
    ref = {}
    for j, n in enumerate(names):
        md = METAS[(j + naming) % len(METAS)]
        bf = 1.0 / (j + 2)
        modes[n] = DecayMode(bf, dict(decays[n]), **copy.deepcopy(md))
        ref[n] = (bf, decays[n], md)
    perms = list(itertools.permutations(names)) if len(names) <= 3 else [tuple(names), tuple(reversed(names))]
    exp = chains.chain_dict_of_modes(mother, ref)
    for perm in perms:
        dc = DecayChain(mother, {n: modes[n] for n in perm})
        d = dc.to_dict()
        if dc.to_dict() != d:
            fails.append(("chain-to_dict-not-repeatable", f"two calls of to_dict() on one chain differ: {plain_decays(decays)}"))
            break
        if d != exp:
            fails.append(("chain-to_dict", f"to_dict() of chain {dict((n, dict(c)) for n, c in decays.items())} (mapping order {perm}) = {d}\nexpected {exp}"))
            break
        try:
            arg = copy.deepcopy(d)
            dc2 = DecayChain.from_dict(arg)
            if arg != d:
                fails.append(("from_dict-mutates-argument", f"from_dict changed the dictionary it was given: {d} -> {arg}"))
                break
        except Exception as e:  # noqa: BLE001
            fails.append((f"chain-from_dict-exception:{type(e).__name__}", f"from_dict(to_dict()) raised {e!r} for chain {dict((n, dict(c)) for n, c in decays.items())}"))
            break
        same = dc2.mother == mother and set(dc2.decays) == set(names) and dc2.ndecays == len(names) and all(
            dc2.decays[n].bf == modes[n].bf and dc2.decays[n].daughters == modes[n].daughters and dc2.decays[n].metadata == modes[n].metadata
            for n in names if n in dc2.decays)
        if not same:
            fails.append(("chain-roundtrip", f"from_dict(to_dict()) differs for chain {dict((n, dict(c)) for n, c in decays.items())}: {dict((n, m.to_dict()) for n, m in dc2.decays.items())}"))
            break
        if dc2.to_dict() != d:
            fails.append(("chain-roundtrip-dict", f"to_dict() of the round trip differs for chain {dict((n, dict(c)) for n, c in decays.items())}"))
            break
    return fails


def plain_decays(decays):
    return {n: dict(c) for n, c in decays.items()}


def work_chains(args):
    k, naming, lo, hi = args
    fails, outs = [], set()
    n = 0
    for idx, decays0 in enumerate(shapes.single_chains(k)):
        if idx < lo:
            continue
        if idx >= hi:
            break
        n += 1
        plain = {p: dict(c) for p, c in decays0.items()}
        f = check_chain(decays0, naming)
        for sig, d in f:
            fails.append(("chain", {"decays": plain, "naming": naming}, sig, d, sum(sum(c.values()) for c in decays0.values())))
        outs.add(short_hash(plain) if not f else "F")
    return {"fails": fails, "outcomes": outs, "traces": n}


# ------------------------------------------------------------------------------------------------ (c)
def canon_up_to_order(d):
    if isinstance(d, str):
        return d
    (m, modes), = d.items()
    return (m, tuple((md["bf"], md["model"], repr(md["model_params"] or ""), tuple(sorted((canon_up_to_order(x) for x in md["fs"]), key=repr)))
                     for md in modes))


def check_parser_chain(t):
    """Single-line tables only: parser chain -> DecayChain.from_dict -> to_dict, equal up to daughter order."""
    ast = ast_of_tables(t)
    p = decobs.parse_text(decmodel.render(ast))
    fails = []
    for m in t:
        ch = p.build_decay_chains(m)
        try:
            dc = DecayChain.from_dict(copy.deepcopy(ch))
            back = dc.to_dict()
        except Exception as e:  # noqa: BLE001
            fails.append((f"parser-chain-exception:{type(e).__name__}", f"from_dict of the parser chain of {m} raised {e!r}: {ch}"))
            continue
        if canon_up_to_order(ch) != canon_up_to_order(back):
            fails.append(("parser-chain-roundtrip", f"parser chain {ch} -> class -> {back}"))
    return fails


def single_line_table_sets():
    for t in shapes.table_sets(1):
        if all(len(v) == 1 for v in t.values()):
            yield t
    yield {"M": [["X", "X", "p"]], "X": [["Y", "Y"]], "Y": [["p", "q", "q"]]}
    yield {"M": [["X", "Y", "X", "Y"]], "X": [["Y"]], "Y": [[]]}


def exec_case(kind, payload):
    if kind == "final-state":
        return check_final_state(tuple(payload))
    if kind == "mode":
        return check_mode(tuple(payload[0]), payload[1])
    if kind == "pdgid":
        return check_pdgid(payload)
    if kind == "unknown-pdgid":
        return check_unknown_pdgid(payload)
    if kind == "chain":
        return check_chain({k: collections.Counter(v) for k, v in payload["decays"].items()}, payload["naming"])
    if kind == "parser-chain":
        return check_parser_chain(payload)
    raise ValueError(kind)


def work_parser(items):
    fails, outs = [], set()
    for t in items:
        try:
            f = check_parser_chain(t)
        except Exception as e:  # noqa: BLE001
            f = [(f"exception:{type(e).__name__}", repr(e))]
        for sig, d in f:
            fails.append(("parser-chain", t, sig, d, sum(len(v[0]) for v in t.values())))
        outs.add(short_hash(t))
    return {"fails": fails, "outcomes": outs, "traces": len(items)}


def run(ctx):
    # (a) final states: every tuple of <=4 names (ordered: all permutations included), multiplicities up to 4
    items = []
    for k in range(0, 5):
        for combo in itertools.product(FS_NAMES, repeat=k):
            items.append(("final-state", list(combo)))
    for combo in [("Foo", "Foo", "bar~"), ("D'_1+",) * 4, ("K_1(1270)+", "anti-K*0", "K_1(1270)+")]:
        items.append(("final-state", list(combo)))
    nfs = len(items)
    for combo in itertools.chain.from_iterable(itertools.combinations_with_replacement(FS_NAMES + ["D'_1+", "Foo"], k) for k in range(0, 4)):
        for mi in range(len(METAS)):
            items.append(("mode", [list(combo), mi]))
    nmode = len(items) - nfs
    names = sorted(conj.EVT_NAME2ID)
    items += [("pdgid", n) for n in names]
    items += [("unknown-pdgid", i) for i in (999999999, 424242, 12345678, -99) if i not in conj.EVT_ID2NAME]
    ctx.log(f"(a) {nfs} final states, {nmode} decay modes, {len(names)} PDG IDs")
    run_tasks(ctx, work_modes, [items[i:i + 100] for i in range(0, len(items), 100)])
    ctx.count(states=len(items), transitions=len(items))
    ctx.part("a-modes", final_states=nfs, modes=nmode, pdgids=len(names), complete=True)
    # (b) chains
    kmax = 3
    tasks = []
    total = 0
    for k in range(0, kmax + 1):
        n = sum(1 for _ in shapes.single_chains(k))
        total += n
        for naming in (range(4) if (ctx.thorough or k < 3) else [ctx.seed % 4, (ctx.seed + 1) % 4]):
            step = max(1, n // 24)
            for lo in range(0, n, step):
                tasks.append((k, naming, lo, lo + step))
    ctx.log(f"(b) {total} chain shapes with <= {kmax + 1} decaying particles x namings, all mapping orders for <=3 entries")
    run_tasks(ctx, work_chains, tasks)
    ctx.count(states=total, transitions=total * 2)
    ctx.part("b-chains", shapes=total, max_decaying=kmax + 1, max_daughters=3, max_multiplicity=2, complete=True)
    ex = next(itertools.islice(shapes.single_chains(2), 40, None))
    ctx.sample({"part": "b", "decays": {k: dict(v) for k, v in ex.items()}, "to_dict": chains.chain_dict_of_modes("P0", {n: (0.5, c, {}) for n, c in ex.items()})})
    # (c) parser-produced single-line chains
    sl = list(single_line_table_sets())
    run_tasks(ctx, work_parser, [sl[i:i + 20] for i in range(0, len(sl), 20)])
    ctx.count(states=len(sl), transitions=len(sl))
    ctx.part("c-parser-chains", table_sets=len(sl), complete=True)
    ctx.extra["excluded"] = ["chains with unreachable sub-decays", "model_params=None", "metadata keys colliding with constructor parameters"]
