"""C12 — flattening multiplies branching fractions and keeps exactly the leaves (E2, shapes; DESIGN.md C12)."""
from __future__ import annotations

import collections
import copy
import itertools
from fractions import Fraction

from decaylanguage import DecayChain, DecayMode

from mc import shapes
from mc.core import pmap, short_hash, run_tasks
from ref import chains

PRIMES = [2, 3, 5, 7, 11, 13, 17, 19]
META0 = {"model": "TOPMODEL", "model_params": [1.0, "w"], "study": {"k": [1, 2]}}


def check_chain(decays0, mode="fraction", all_perms=True):
    """decays0: {Pi: Counter}; every subset of the decaying non-mother particles as stable set, every permutation of
    the mapping (<=4 entries), both exact arithmetic passes."""
    names = sorted(decays0)
    fails = []
    n = 0
    if mode == "fraction":
        bfs = {p: Fraction(1, PRIMES[i]) for i, p in enumerate(names)}
    else:
        bfs = {p: 2.0 ** -(3 ** i) for i, p in enumerate(names)}  # dyadic: products are exact in floating point
    modes = {p: DecayMode(bfs[p], dict(decays0[p]), **(copy.deepcopy(META0) if p == "P0" else {"model": "M" + p, "tag": p})) for p in names}
    subs = [p for p in names if p != "P0"]
    if len(names) <= 4 and all_perms:
        perms = list(itertools.permutations(names))
    else:
        perms = [tuple(names), tuple(reversed(names))] + [tuple(names[i:] + names[:i]) for i in range(1, len(names))]
    for r in range(len(subs) + 1):
        for S in itertools.combinations(subs, r):
            leaves, cnt = chains.flatten("P0", decays0, set(S))
            exp_bf = 1
            for p, c in cnt.items():
                exp_bf = exp_bf * bfs[p] ** c
            for perm in perms:
                n += 1
                dc = DecayChain("P0", {p: modes[p] for p in perm})
                before = dc.to_dict()
                try:
                    stable_arg = [list(S), tuple(S), set(S)][n % 3] if S else ()
                    fl = dc.flatten(stable_particles=stable_arg)
                except Exception as e:  # noqa: BLE001
                    fails.append((f"flatten-exception:{type(e).__name__}", f"flatten(stable={S}) raised {e!r} for {plain(decays0)} order {perm}"))
                    break
                top = fl.decays.get("P0")
                problems = []
                if fl.ndecays != 1 or fl.mother != "P0" or top is None:
                    problems.append("sub-decays-left")
                else:
                    if dict(top.daughters) != dict(leaves):
                        problems.append("leaves")
                    if top.bf != exp_bf:
                        problems.append("bf")
                    if top.metadata != META0:
                        problems.append("metadata")
                if dc.to_dict() != before:
                    problems.append("original-mutated")
                if not S and not problems:
                    try:
                        if dc.visible_bf != fl.bf:
                            problems.append("visible_bf")
                    except Exception:  # noqa: BLE001
                        problems.append("visible_bf")
                if problems:
                    fails.append(("flatten:" + "+".join(problems),
                                  f"chain {plain(decays0)} (mapping order {perm}), stable={S}: flatten gives {fl.decays if top is None else (dict(top.daughters), top.bf, top.metadata)}, expected leaves {dict(leaves)} bf {exp_bf} (decay counts {dict(cnt)})"))
                    break
            if fails:
                break
        if fails:
            break
    return fails, n


def check_sequences(decays0):
    """History part: several flatten()/visible_bf calls on the SAME chain object, every ordered pair of stable
    subsets: each answer must equal the reference, whatever was asked before."""
    names = sorted(decays0)
    bfs = {p: Fraction(1, PRIMES[i]) for i, p in enumerate(names)}
    subs = [p for p in names if p != "P0"]
    sets = [tuple(c) for r in range(len(subs) + 1) for c in itertools.combinations(subs, r)]
    fails = []
    n = 0

    def expected(S):
        leaves, cnt = chains.flatten("P0", decays0, set(S))
        bf = 1
        for p, c in cnt.items():
            bf = bf * bfs[p] ** c
        return dict(leaves), bf

    for S1 in sets:
        for S2 in sets:
            dc = DecayChain("P0", {p: DecayMode(bfs[p], dict(decays0[p]), model="M" + p) for p in names})
            seq = [S1, S2, "visible_bf", ()]
            for step, S in enumerate(seq):
                n += 1
                if S == "visible_bf":
                    got = (None, dc.visible_bf)
                    exp = (None, expected(())[1])
                else:
                    fl = dc.flatten(stable_particles=list(S)) if S else dc.flatten()
                    got = (dict(fl.decays["P0"].daughters), fl.bf) if fl.ndecays == 1 else ("sub-decays-left", fl.bf)
                    exp = expected(S)
                if got != exp:
                    fails.append(("flatten:depends-on-earlier-calls", f"chain {plain(decays0)}: calls {seq[:step+1]} on one object: the last gives {got}, expected {exp}"))
                    return fails, n
    return fails, n


def plain(decays0):
    return {p: dict(c) for p, c in decays0.items()}


def deep_chains():
    """Branching <= 2, up to 6 decaying particles, multiplicities <= 3, particles re-occurring at several depths."""
    for k in (4, 5):
        yield from shapes.single_chains(k, maxmult=2, maxd=2)
    yield from deep_chains_spines()


def deep_chains_spines():
    # multiplicity 3 and re-occurrence at several depths
    C = collections.Counter
    yield {"P0": C({"P1": 3, "P2": 1}), "P1": C({"P2": 2, "a": 1}), "P2": C({"a": 3})}
    yield {"P0": C({"P1": 1, "P3": 2}), "P1": C({"P2": 1, "P3": 1}), "P2": C({"P3": 3}), "P3": C({"a": 1, "b": 2})}
    yield {"P0": C({"P1": 2}), "P1": C({"P2": 2}), "P2": C({"P3": 2}), "P3": C({"P4": 2}), "P4": C({"P5": 2}), "P5": C({"a": 2, "b": 1})}
    yield {"P0": C({"P5": 1, "P4": 1, "P3": 1, "P2": 1, "P1": 1}), "P1": C({"P2": 1}), "P2": C({"P3": 1}), "P3": C({"P4": 1}), "P4": C({"P5": 1}), "P5": C({"a": 1})}


def work(args):
    kind, shapes_list, mode, all_perms = args
    fails, outs = [], set()
    ntr = 0
    for d in shapes_list:
        d = {k: collections.Counter(v) for k, v in d.items()}
        if kind == "sequences":
            f, n = check_sequences(d)
            ntr += n
            for sig, det in f:
                fails.append(("sequence", {"decays": plain(d)}, sig, det, sum(sum(c.values()) for c in d.values())))
            outs.add(short_hash([plain(d), "seq"]) if not f else "F")
            continue
        f, n = check_chain(d, mode, all_perms=all_perms)
        ntr += n
        for sig, det in f:
            fails.append(("chain", {"decays": plain(d), "mode": mode, "all_perms": all_perms}, sig, det, sum(sum(c.values()) for c in d.values())))
        outs.add(short_hash(plain(d)) if not f else "F")
    return {"fails": fails, "outcomes": outs, "traces": ntr}


def exec_case(kind, payload):
    d = {k: collections.Counter(v) for k, v in payload["decays"].items()}
    if kind == "sequence":
        return check_sequences(d)[0]
    return check_chain(d, payload["mode"], all_perms=payload.get("all_perms", True))[0]


def run(ctx):
    tasks = []
    total = 0
    for k in range(0, 4):
        sh = [plain(d) for d in shapes.single_chains(k)]
        total += len(sh)
        full = ctx.thorough or k < 3
        for mode in (("fraction", "dyadic") if full else ("fraction",)):
            for i in range(0, len(sh), 150):
                tasks.append(("small", sh[i:i + 150], mode, full))
    # call sequences on one object: all chains with <=3 decaying particles (<=4 in thorough), every ordered pair of stable sets
    for k in range(0, 4 if ctx.thorough else 3):
        sh = [plain(d) for d in shapes.single_chains(k)]
        for i in range(0, len(sh), 100):
            tasks.append(("sequences", sh[i:i + 100], "fraction", False))
    deep = [plain(d) for d in deep_chains()] if ctx.thorough else None
    if ctx.thorough:
        nd = len(deep)
        for i in range(0, nd, 400):
            tasks.append(("deep", deep[i:i + 400], "fraction", False))
    else:
        spines = [plain(d) for d in deep_chains_spines()]
        sl = [plain(d) for d in itertools.islice(shapes.single_chains(4, maxmult=2, maxd=2), ctx.seed % 7, 14000, 7)]
        nd = len(spines) + len(sl)
        tasks.append(("deep", spines, "fraction", False))
        for i in range(0, len(sl), 200):
            tasks.append(("deep", sl[i:i + 200], "fraction", False))
    ctx.log(f"{total} chain shapes (<=4 decaying) x all stable subsets x mapping orders; {nd} deeper shapes ({'all' if ctx.thorough else 'slice + spines'})")
    ctx.rng.shuffle(tasks)
    run_tasks(ctx, work, tasks)
    ctx.count(states=total + nd, transitions=ctx.traces)
    ctx.part("flatten", small_shapes=total, deep_shapes=nd, deep_complete=ctx.thorough,
             mapping_orders="all permutations for <=3 decaying particles (<=4 in thorough), identity/reverse/rotations beyond",
             arithmetic=["Fraction with distinct prime reciprocals", "dyadic floats"])
    ex = next(itertools.islice(shapes.single_chains(3), 5000, None))
    ctx.sample({"decays": plain(ex), "stable": ["P2"], "expected_leaves": dict(chains.flatten("P0", ex, {"P2"})[0]), "decay_counts": dict(chains.flatten("P0", ex, {"P2"})[1])})
    ctx.extra["bound_completed"] = {"decaying_particles": "<=4 complete (<=3 daughters, multiplicity <=2); <=6 with branching <=2 (complete in thorough)"}
    ctx.extra["excluded"] = ["cyclic chains", "stable sets containing the mother"]
