"""C13 — a decay descriptor string determines the decay tree it was made from (E2, shapes; DESIGN.md C13)."""
from __future__ import annotations

import collections
import itertools

from decaylanguage import DecayChain, DecayMode
from decaylanguage.utils import DescriptorFormat

from mc import shapes
from mc.core import pmap, short_hash, run_tasks
from ref import chains

NAMESETS = [
    (["K_1(1270)+", "Upsilon(4S)", "f'_0", "anti-K*0", "D*(2010)+", "a_1(1260)-"], ("pi+", "K_S0")),
    (["B0", "D*+", "Xi_c0", "anti-Lambda_b0", "J/psi", "chi_c1"], ("gamma", "e-")),
    (["Q(1)(2)", "x'y'", "anti-anti-Z", "w+-", "p.q", "t~u"], ("a", "K*(892)0")),
]
PATTERNS = [
    ("{mother} -> {daughters}", "({mother} -> {daughters})"),
    ("{mother} --> {daughters}", "[{mother} --> {daughters}]"),
    ("{mother} => {daughters}", "{mother} (=> {daughters})"),
    ("{mother} => {daughters}", "<{mother} := {daughters}>"),
    ("{mother} : {daughters}", "{{{mother} = {daughters}}}"),
    ("{mother!s} -> {daughters!s}", "({mother!s} -> {daughters})"),
]
SYNTAX = [chains.DescriptorSyntax(a, b) for a, b in PATTERNS]
DEFAULT = PATTERNS[0]


def concrete(decays0, naming):
    pool, (a, b) = NAMESETS[naming]
    k = len(decays0) - 1
    ren = {f"P{i}": pool[i] for i in range(k + 1)}
    ren.update(a=a, b=b)
    return {ren[n]: collections.Counter({ren[d]: m for d, m in dd.items()}) for n, dd in decays0.items()}, ren["P0"]


def check_chain(decays0, naming, patterns):
    decays, mother = concrete(decays0, naming)
    names = list(decays)
    tree = chains.tree_of_modes(mother, {n: (0.5, c, {}) for n, c in decays.items()})
    fails = []
    n = 0

    def build(order, reverse_daughters):
        modes = {}
        for p in order:
            ds = sorted(decays[p].elements(), reverse=reverse_daughters)
            modes[p] = DecayMode(0.5, ds if not reverse_daughters else ds[::2] + ds[1::2])
        return DecayChain(mother, modes)

    orders = list(itertools.permutations(names)) if len(names) <= 3 else [tuple(names), tuple(reversed(names))]
    default_string = None
    for pi in patterns:
        DescriptorFormat.set_config(*DEFAULT)
        strings = set()
        try:
            for order in orders:
                for rev in (False, True):
                    n += 1
                    dc = build(order, rev)
                    if pi == 0:
                        s = dc.to_string()
                        if dc.to_string() != s:
                            strings.add(s + " (second call differs)")
                    else:
                        before = dc.to_string()
                        with DescriptorFormat(*PATTERNS[pi]):
                            s = dc.to_string()
                        after = dc.to_string()
                        if before != after or (default_string is not None and after != default_string):
                            strings.add(f"{s} [default rendering changed by the pattern block: {before!r} -> {after!r}]")
                    strings.add(s)
        except Exception as e:  # noqa: BLE001
            fails.append((f"to_string-exception:{type(e).__name__}", f"{e!r} for chain {plain(decays)} pattern {PATTERNS[pi]}"))
            continue
        finally:
            DescriptorFormat.set_config(*DEFAULT)
        if any("[default rendering changed" in x for x in strings):
            fails.append(("default-rendering-changed-by-pattern-block", f"chain {plain(decays)}, patterns {PATTERNS[pi]}: {sorted(strings)[:2]}"))
            continue
        if len(strings) != 1:
            fails.append(("order-dependent", f"chain {plain(decays)} renders differently for different input orders: {sorted(strings)[:3]}"))
            continue
        s = next(iter(strings))
        if pi == 0:
            default_string = s
        try:
            got = SYNTAX[pi].read(s)
        except Exception as e:  # noqa: BLE001
            fails.append((f"unreadable:{pi}", f"descriptor {s!r} (patterns {PATTERNS[pi]}) cannot be read back: {e!r}"))
            continue
        if got != tree:
            fails.append((f"tree-differs:{pi}", f"descriptor {s!r} (patterns {PATTERNS[pi]}) reads back as {got}, the chain is {tree}"))
    return fails, n


def plain(decays):
    return {p: dict(c) for p, c in decays.items()}


def work(args):
    shapes_list, naming, patterns = args
    fails, outs = [], set()
    ntr = 0
    for d in shapes_list:
        d = {k: collections.Counter(v) for k, v in d.items()}
        f, n = check_chain(d, naming, patterns)
        ntr += n
        for sig, det in f:
            fails.append(("chain", {"decays": plain(d), "naming": naming, "patterns": patterns}, sig, det, sum(sum(c.values()) for c in d.values())))
        outs.add(short_hash([plain(d), naming]) if not f else "F")
    return {"fails": fails, "outcomes": outs, "traces": ntr}


def exec_case(kind, payload):
    d = {k: collections.Counter(v) for k, v in payload["decays"].items()}
    return check_chain(d, payload["naming"], payload["patterns"])[0]


def run(ctx):
    tasks = []
    total = 0
    allp = list(range(len(PATTERNS)))
    for k in range(0, 4):
        sh = [plain(d) for d in shapes.single_chains(k)]
        total += len(sh)
        for naming in range(len(NAMESETS)):
            if k == 3 and not ctx.thorough:
                if naming != ctx.seed % 3:
                    continue
                pats = [0, 1 + ctx.seed % 5]
            else:
                pats = allp
            for i in range(0, len(sh), 200):
                tasks.append((sh[i:i + 200], naming, pats))
    ctx.log(f"{total} chain shapes x name sets x bracketing patterns, all input orders for <=3 decaying particles")
    ctx.rng.shuffle(tasks)
    run_tasks(ctx, work, tasks)
    ctx.count(states=total * len(NAMESETS), transitions=ctx.traces)
    ctx.part("descriptors", shapes=total, name_sets=len(NAMESETS), patterns=PATTERNS, complete=ctx.thorough)
    ex = next(itertools.islice(shapes.single_chains(2), 300, None))
    dec, mother = concrete(ex, 0)
    t = chains.tree_of_modes(mother, {n: (0.5, c, {}) for n, c in dec.items()})
    ctx.sample({"decays": plain(dec), "tree": repr(t), "rendered_by_reference": [sx.render(t) for sx in SYNTAX]})
    ctx.extra["excluded"] = ["names containing the bracket characters of the pattern in use unbalanced", "labels starting with an opening bracket"]
