"""C14 — descriptor format settings are scoped and validated (E1: BFS over call histories).

Alphabet (see DESIGN.md C14):
  ("new", i)      create DescriptorFormat with valid pattern pair i (at most MAX_OBJ objects)
  ("newbad", j)   create a context object with an invalid pattern pair j (constructor does not validate)
  ("enter", k)    __enter__ of the k-th created object (also one that is already entered)
  ("exit",)       leave the innermost entered context normally
  ("exitexc",)    leave the innermost entered context with an exception in flight (an Exception subclass)
  ("exitbase",)   the same with an exception that is NOT an Exception subclass (KeyboardInterrupt / a BaseException)
  ("set", i)      DescriptorFormat.set_config with valid pair i
  ("setbad", j)   DescriptorFormat.set_config with invalid pair j  (must raise ValueError, change nothing)
After every step: DescriptorFormat.config and DecayChain.to_string() of a fixed two-level chain must equal the
reference stack model's format in force.  A second driver executes the same histories through real `with`
blocks (well-nested histories only) and must observe the same.
"""
from __future__ import annotations

import itertools

from decaylanguage import DecayChain, DecayMode
from decaylanguage.utils import DescriptorFormat as DF

from mc.bfs import bfs
from ref.formatstack import DEFAULT, FormatStack

VALID = [
    ("{mother} => {daughters}", "[{mother} => {daughters}]"),
    ("{mother} --> {daughters}", "<{mother} --> {daughters}>"),
    ("{daughters} <- {mother}", "{{{mother} : {daughters}}}"),  # swapped order, escaped braces
]
INVALID = [
    ("{mother} -> x", "({mother} -> {daughters})"),                     # missing {daughters}
    ("x -> {daughters}", "({mother} -> {daughters})"),                  # missing {mother}
    ("{mother} -> {daughters} {extra}", "({mother} -> {daughters})"),   # extra field
    ("{mother} -> {daughters}", "{} {mother} {daughters}"),             # positional field, second pattern
    ("{mother.x} -> {daughters}", "({mother} -> {daughters})"),         # attribute field
    ("{mother} x", "{daughters} y"),                                    # both invalid
    ("{mother} ==> {daughters}", "({mother} ==> x)"),                   # only the second invalid
    ("{mother} ==> {daughters}", "({mother} ==> {daughters} {0})"),     # only the second: numbered field
]
MAX_OBJ = 3
# fixed two-level chain; daughters chosen so that sorted order does not depend on the bracket character
CHAIN_REF = ("A", [("B", ["x", "y"]), "C"])  # rendered daughters: "(B -> x y) C": bracket chars sort before 'C'


def _chain():
    return DecayChain("A", {"A": DecayMode(1, "B C"), "B": DecayMode(1, "x y")})


def _expected_string(fmt):
    # DaughtersDict.to_string sorts the already rendered daughter strings; compute the same multiset and compare
    # as a sorted list so that the bracket character's sort position is not assumed
    sub = fmt[1].format(mother="B", daughters="x y")
    return fmt[0].format(mother="A", daughters=" ".join(sorted([sub, "C"])))


def _fmt_of(cfg):
    return (cfg.get("decay_pattern"), cfg.get("sub_decay_pattern"))


def _hidden(o):
    d = []
    for a in ("new_config", "old_config", "_saved_configs"):
        v = getattr(o, a, None)
        d.append(repr(v))
    return d


def _enabled(model, nobj):
    ops = []
    if nobj < MAX_OBJ:
        ops += [("new", i) for i in range(2)]
        ops += [("newbad", 0), ("newbad", 6)]
    ops += [("enter", k) for k in range(nobj)]
    if model.stack:
        ops += [("exit",), ("exitexc",), ("exitbase",)]
    ops += [("set", i) for i in range(len(VALID))]
    ops += [("setbad", j) for j in range(len(INVALID))]
    return ops


def run_history(hist, check_all=False):
    """Direct driver: __enter__/__exit__ called explicitly. Judges only the last step unless check_all.
    The format is reset through the public set_config (a direct assignment to the class attribute would bypass
    whatever bookkeeping an implementation attaches to it); the descriptor is rendered after EVERY step, because
    rendering is itself an operation of the alphabet (an implementation may cache what it renders)."""
    DF.set_config(*DEFAULT)
    model = FormatStack()
    objs = []  # (impl object, format or None when invalid)
    entered = []  # impl objects, innermost last
    fails = []
    dc = _chain()
    n = len(hist)
    for step, op in enumerate(hist):
        op = tuple(op)
        last = step == n - 1
        try:
            if op[0] == "new":
                objs.append((DF(*VALID[op[1]]), VALID[op[1]]))
            elif op[0] == "newbad":
                objs.append((DF(*INVALID[op[1]]), None))
            elif op[0] == "enter":
                o, fmt = objs[op[1]]
                if fmt is None:
                    try:
                        o.__enter__()
                    except ValueError:
                        pass
                    else:
                        if last or check_all:
                            fails.append(("accepted-invalid-on-enter", f"entering a context with invalid patterns {INVALID} was accepted after {hist[:step+1]}"))
                        # keep the two sides in step: treat as not entered
                        break
                else:
                    o.__enter__()
                    entered.append(o)
                    model.enter(op[1], fmt)
            elif op[0] in ("exit", "exitexc", "exitbase"):
                o = entered.pop()
                if op[0] == "exit":
                    o.__exit__(None, None, None)
                elif op[0] == "exitexc":
                    e = KeyError("boom")
                    o.__exit__(KeyError, e, None)
                else:
                    e = KeyboardInterrupt()
                    try:
                        o.__exit__(KeyboardInterrupt, e, None)
                    except KeyboardInterrupt:
                        pass  # an implementation may re-raise the exception in flight: that is how a with-block behaves
                model.leave()
            elif op[0] == "set":
                DF.set_config(*VALID[op[1]])
                model.set(VALID[op[1]])
            elif op[0] == "setbad":
                try:
                    DF.set_config(*INVALID[op[1]])
                except ValueError:
                    pass
                else:
                    if last or check_all:
                        fails.append(("accepted-invalid", f"set_config{INVALID[op[1]]} was accepted after {hist[:step+1]}"))
                    break
        except Exception as e:  # noqa: BLE001
            fails.append((f"exception:{type(e).__name__}@{op[0]}", f"{op} raised {e!r} in history {hist}"))
            break
        if not (last or check_all):
            try:
                dc.to_string()
            except Exception:  # noqa: BLE001
                pass
        if last or check_all:
            got = _fmt_of(DF.config)
            if got != model.current or set(DF.config) != {"decay_pattern", "sub_decay_pattern"}:
                fails.append((f"config-mismatch@{op[0]}", f"after {list(hist[:step+1])}: config={DF.config} but format in force is {model.current}"))
            else:
                s = dc.to_string()
                exp = _expected_string(model.current)
                if s != exp:
                    fails.append((f"render-mismatch@{op[0]}", f"after {list(hist[:step+1])}: rendered {s!r}, expected {exp!r}"))
    canon = (
        sorted(DF.config.items()),
        [_hidden(o) + [repr(f)] for o, f in objs],
        [id_index(objs, o) for o in entered],
        model.current,
        model.stack,
    )
    return {
        "canon": canon,
        "fails": fails,
        "enabled": _enabled(model, len(objs)),
        "outcome": (sorted(DF.config.items()), len(entered)),
    }


def id_index(objs, o):
    for i, (x, _f) in enumerate(objs):
        if x is o:
            return i
    return -1


# ---------------------------------------------------------------------------------------------
class _Leave(Exception):
    def __init__(self, pos):
        self.pos = pos


class _LeaveBase(BaseException):
    def __init__(self, pos):
        self.pos = pos


def run_with_blocks(hist):
    """Second driver: the same history through real `with` statements (needs a well-nested history:
    every enter is matched by an exit/exitexc later or stays open until the end). Returns per-step observations."""
    DF.set_config(*DEFAULT)
    objs = []
    obs = []
    dc = _chain()

    class _End(Exception):
        pass

    def drive(i, depth):
        while i < len(hist):
            op = tuple(hist[i])
            if op[0] == "new":
                objs.append(DF(*VALID[op[1]]))
            elif op[0] == "newbad":
                objs.append(DF(*INVALID[op[1]]))
            elif op[0] == "set":
                DF.set_config(*VALID[op[1]])
            elif op[0] == "setbad":
                try:
                    DF.set_config(*INVALID[op[1]])
                    obs.append("accepted-invalid")
                except ValueError:
                    pass
            elif op[0] == "enter":
                try:
                    with objs[op[1]]:
                        obs.append((_fmt_of(DF.config), dc.to_string()))
                        i = drive(i + 1, depth + 1)
                        if i is None:
                            raise _End
                except (_Leave, _LeaveBase) as e:
                    i = e.pos
                except ValueError:
                    pass  # invalid context: __enter__ refused, block not run
                obs.append((_fmt_of(DF.config), dc.to_string()))
                i += 1
                continue
            elif op[0] == "exit":
                if depth == 0:
                    raise RuntimeError("not well nested")
                return i
            elif op[0] == "exitexc":
                if depth == 0:
                    raise RuntimeError("not well nested")
                raise _Leave(i)
            elif op[0] == "exitbase":
                if depth == 0:
                    raise RuntimeError("not well nested")
                raise _LeaveBase(i)
            obs.append((_fmt_of(DF.config), dc.to_string()))
            i += 1
        return None

    try:
        drive(0, 0)
    except _End:
        pass
    return obs


def _direct_obs(hist):
    """Observations of the direct driver in the same format as run_with_blocks (model-side expectations)."""
    model = FormatStack()
    objs = []
    obs = []
    for op in hist:
        op = tuple(op)
        if op[0] == "new":
            objs.append(VALID[op[1]])
        elif op[0] == "newbad":
            objs.append(None)
        elif op[0] == "set":
            model.set(VALID[op[1]])
        elif op[0] == "enter":
            if objs[op[1]] is not None:
                model.enter(op[1], objs[op[1]])
            else:
                # refused: with-driver records nothing inside, one observation after
                obs.append((model.current, _expected_string(model.current)))
                continue
        elif op[0] in ("exit", "exitexc", "exitbase"):
            model.leave()
        obs.append((model.current, _expected_string(model.current)))
    return obs


def _with_chunk(hists):
    out = []
    for h in hists:
        got = run_with_blocks(h)
        exp = _direct_obs(h)
        # the with-driver closes still-open blocks at the end of the history (extra trailing observations)
        ok = got[: len(exp)] == exp
        out.append((h, ok, got, exp))
    return out


def _well_nested_histories(maxlen):
    """All histories (from the same alphabet, by model enabledness) up to maxlen; every one is well nested because
    exit/exitexc are only enabled when a context is open."""
    out = []
    frontier = [((), FormatStack(), 0, [])]
    for _ in range(maxlen):
        nxt = []
        for h, model, nobj, kinds in frontier:
            for op in _enabled(model, nobj):
                if op[0] == "setbad" and op[1] not in (0, 6):
                    continue
                if op[0] == "set" and op[1] == 2:
                    continue
                m2 = FormatStack()
                m2.current, m2.stack = model.current, list(model.stack)
                k2 = list(kinds)
                n2 = nobj
                if op[0] == "new":
                    n2 += 1
                    k2.append(VALID[op[1]])
                elif op[0] == "newbad":
                    n2 += 1
                    k2.append(None)
                elif op[0] == "enter":
                    if k2[op[1]] is not None:
                        m2.enter(op[1], k2[op[1]])
                elif op[0] in ("exit", "exitexc", "exitbase"):
                    m2.leave()
                elif op[0] == "set":
                    m2.set(VALID[op[1]])
                h2 = h + (op,)
                out.append(h2)
                nxt.append((h2, m2, n2, k2))
        frontier = nxt
    return out


def exec_case(kind, payload):
    hist = tuple(tuple(o) for o in payload["history"])
    if kind == "history":
        return run_history(hist, check_all=True)["fails"]
    if kind == "with":
        got = run_with_blocks(hist)
        exp = _direct_obs(hist)
        if got[: len(exp)] != exp:
            return [("with-driver-mismatch", f"history {list(hist)} through real with-blocks observed {got}, reference {exp}")]
        return []
    raise ValueError(kind)


def run(ctx):
    from mc.core import pmap

    depth = 8 if ctx.thorough else 6
    forced = 5 if ctx.thorough else 4
    bfs(ctx, "direct-driver", run_history, depth, forced, "history", chunk=400)
    # second driver with real with-statements
    hs = _well_nested_histories(5 if ctx.thorough else 4)
    chunks = [hs[i:i + 500] for i in range(0, len(hs), 500)]
    n = 0
    for res in pmap(_with_chunk, chunks, ctx.workers):
        for h, ok, got, exp in res:
            n += 1
            if not ok:
                ctx.fail("with", {"history": [list(o) for o in h]}, "with-driver-mismatch",
                         f"history {list(h)} through real with-blocks observed {got}, reference {exp}", weight=len(h))
    ctx.count(transitions=sum(len(h) for h in hs), traces=n)
    ctx.part("with-driver", histories=n, max_len=5 if ctx.thorough else 4)
    ctx.extra["bound_completed"] = {"history_length": depth, "all_histories_up_to": forced, "max_context_objects": MAX_OBJ}
    ctx.extra["alphabet"] = ["new(i)", "newbad(j)", "enter(k)", "exit", "exitexc", "exitbase", "set(i)", "setbad(j)"]
