"""C15 — the chain graph has one node and one labelled edge per decay line (E2 shapes + E1 for identifiers)."""
from __future__ import annotations

import itertools
import json
import re
import subprocess

from decaylanguage import DecayChain, DecayChainViewer, DecayMode
from particle import latex_to_html_name
from particle.converters.bimap import DirectionalMaps

from mc import shapes
from mc.core import pmap, run_forked, short_hash, run_tasks
from props.c10_expand import lines_family
from ref import chains

_E2L, _ = DirectionalMaps("EvtGenName", "LaTexName")
RENAMES = [
    {},
    {"M": "B0", "X": "anti-B0", "Y": "D'_1+", "Z": "K_S0", "p": "K_S0", "q": "cs_0"},
    {"M": "Upsilon(4S)", "X": "K_1(1270)+", "Y": "MyAlias-sig", "p": "anti-nu_e", "q": "Xi_c0"},
]


def hname(n):
    try:
        return latex_to_html_name(_E2L[n])
    except Exception:  # noqa: BLE001
        return n


def chain_dict(t, m, ren):
    """Chain dictionary of an abstract table set (distinct branching fraction per line)."""
    idx = {name: i for i, name in enumerate(t)}

    def rec(x):
        modes = []
        for li, ds in enumerate(t[x]):
            fs = [rec(d) if d in t else ren.get(d, d) for d in ds]
            modes.append({"bf": (idx[x] + 1) * 0.125 + (li + 1) / 64.0, "fs": fs, "model": "PHSP", "model_params": ""})
        return {ren.get(x, x): modes}

    return rec(m)


def dot_json(src):
    r = subprocess.run(["dot", "-Tdot_json"], input=src.encode(), capture_output=True)
    if r.returncode != 0:
        return None, r.stderr.decode()[:300]
    j = json.loads(r.stdout)
    j["_warnings"] = r.stderr.decode()[:300]
    return j, None


def cells_of(label):
    return tuple(c for c in re.findall(r"<TD[^>]*>(.*?)</TD>", label) if c != "")


def observed_graph(j):
    """Canonical tree (same shape as ref.chains.graph) from Graphviz' own reading of the DOT text."""
    objs = {o["_gvid"]: o for o in j.get("objects", [])}
    names = [o["name"] for o in objs.values()]
    problems = []
    if len(set(names)) != len(names):
        problems.append("duplicate-node-names")
    roots = [g for g, o in objs.items() if o["name"] == "mother"]
    if len(roots) != 1:
        return None, ["root-count"], names
    out_edges = {}
    indeg = {g: 0 for g in objs}
    if j.get("_warnings", "").strip():
        problems.append("graphviz-warning")
    for e in j.get("edges", []):
        port = None
        if "tailport" in e:
            tp = e["tailport"]
            if re.fullmatch(r"p\d+", tp):
                port = int(tp[1:])
            else:
                # not a slot name of the form p<i> (e.g. "p0:p0"): keep it verbatim, it can match no expected slot
                port = tp
                problems.append("edge-from-malformed-slot")
        if isinstance(port, int) and f'PORT="p{port}"' not in objs[e["tail"]].get("label", ""):
            problems.append("edge-from-missing-slot")
        out_edges.setdefault(e["tail"], []).append((port, e.get("label", ""), e["head"]))
        indeg[e["head"]] += 1
    for g, o in objs.items():
        if g != roots[0] and indeg[g] != 1:
            problems.append("node-without-exactly-one-incoming-edge")
    if indeg[roots[0]] != 0:
        problems.append("edge-into-root")
    seen = set()

    def node(g):
        seen.add(g)
        kids = [(p, lab, node(h)) for p, lab, h in out_edges.get(g, [])]
        return (cells_of(objs[g]["label"]), sorted(kids, key=repr))

    root = objs[roots[0]]
    rc = cells_of(root["label"])
    tree = (rc[0] if rc else "", sorted(((p, lab, node(h)) for p, lab, h in out_edges.get(roots[0], [])), key=repr))
    if len(seen) + 1 != len(objs):
        problems.append("unreachable-nodes")
    return tree, problems, names


def expected_graph(chain):
    g = chains.graph(chain)

    def conv(node):
        cells, kids = node
        return (tuple(hname(c) for c in cells), sorted(((p, lab, conv(ch)) for p, lab, ch in kids), key=repr))

    return (hname(g[0]), sorted(((p, lab, conv(ch)) for p, lab, ch in g[1]), key=repr))


def check_chain(chain):
    import copy
    before = copy.deepcopy(chain)
    try:
        v = DecayChainViewer(chain)
        src = v.to_string()
        if v.to_string() != src:
            return [("to_string-not-repeatable", f"two calls of to_string() differ for chain {chain}")]
    except Exception as e:  # noqa: BLE001
        return [(f"viewer-exception:{type(e).__name__}", f"{e!r} for chain {chain}")]
    if chain != before:
        return [("viewer-mutates-chain", f"building the graph changed the chain dictionary: {before} -> {chain}")]
    j, err = dot_json(src)
    if j is None:
        return [("rejected-by-graphviz", f"dot rejects the graph of chain {chain}: {err}")]
    tree, problems, _names = observed_graph(j)
    fails = [(p, f"{p} in the graph of chain {chain}") for p in problems]
    if tree is not None:
        exp = expected_graph(chain)
        if tree != exp:
            kind = "graph-differs"
            if chains.graph_counts(chains.graph(chain)) != sum(1 for o in j["objects"]) - 1:
                kind = "node-count"
            fails.append((kind, f"graph of chain {chain}:\n observed {tree}\n expected {exp}"))
    return fails


def scenarios(ctx):
    base = list(shapes.table_sets(2 if ctx.thorough else 1))
    spines = list(shapes.spine_table_sets()) + list(lines_family())
    out = []
    for t in spines:
        for ri in range(len(RENAMES)):
            out.append((t, ri))
    step = 1 if ctx.thorough else 3
    for i, t in enumerate(base):
        if i % step == ctx.seed % step:
            out.append((t, i % len(RENAMES)))
    return out


def work(items):
    fails, outs = [], set()
    for t, ri in items:
        chain = chain_dict(t, "M", RENAMES[ri])
        f = check_chain(chain)
        for sig, d in f:
            fails.append(("chain", {"chain": chain}, sig, d, len(json.dumps(chain))))
        outs.add(short_hash(chain) if not f else "F")
    return {"fails": fails, "outcomes": outs, "traces": len(items)}


# ---- class representation ------------------------------------------------------------------------
def class_chains():
    for k in range(0, 3):
        for d in shapes.single_chains(k):
            yield d


def work_class(items):
    fails, outs = [], set()
    for d in items:
        ren = {"P0": "D*+", "P1": "D0", "P2": "K_S0", "a": "pi+", "b": "gamma"}
        modes = {ren[p]: DecayMode(1.0 / (i + 2), {ren[x]: n for x, n in c.items()}, model="PHSP") for i, (p, c) in enumerate(sorted(d.items()))}
        chain = DecayChain("D*+", modes).to_dict()
        f = check_chain(chain)
        for sig, det in f:
            fails.append(("chain", {"chain": chain}, sig, det, len(json.dumps(chain))))
        outs.add(short_hash(chain) if not f else "F")
    return {"fails": fails, "outcomes": outs, "traces": len(items)}


# ---- identifiers across graphs of one session (E1) -------------------------------------------------
SESSION_CHAINS = [
    {"M": [["X", "p"], ["q"]], "X": [["p", "q"], []]},
    {"M": [["p"]]},
    {"M": [["X", "X"]], "X": [["Y"]], "Y": [["p"], ["q"], []]},
    {"M": [["X", "p"], ["p", "q"]]},          # the daughter lists of chain 0 as leaves (X has no table here)
    {"M": [["p", "q"], ["Y"]], "Y": [["p"]]},  # ... and [Y] / [p] in the other role than in chain 2
]


def session(seq):
    """Build the viewers of a history in ONE process; return per-graph node names (as read by Graphviz)."""
    out = []
    for i in seq:
        # an operation is a chain index, or [chain index, graph name] for a viewer given a name of its own
        i, gname = (i, None) if isinstance(i, int) else (i[0], i[1])
        if gname == "@thread":
            # the viewer is built in a worker thread of its own (started and joined here: one deterministic schedule;
            # a session may well build its graphs in a thread pool)
            import threading
            box = []
            t = threading.Thread(target=lambda: box.append(DecayChainViewer(chain_dict(SESSION_CHAINS[i], "M", {}))))
            t.start()
            t.join()
            if not box:
                return ("dot-error", "viewer construction failed in a worker thread")
            v = box[0]
        else:
            v = DecayChainViewer(chain_dict(SESSION_CHAINS[i], "M", {}), **({"name": gname} if gname else {}))
        j, err = dot_json(v.to_string())
        if j is None:
            return ("dot-error", err)
        tree, problems, _n = observed_graph(j)
        out.append(([o["name"] for o in j["objects"]], tree, problems))
    return ("ok", out)


def check_session(seq):
    st, res = run_forked(session, tuple(s if isinstance(s, int) else tuple(s) for s in seq))
    if st != "ok":
        return [("rejected-by-graphviz", str(res))]
    fails = []
    seen = {}
    idx = [s if isinstance(s, int) else s[0] for s in seq]
    for gi, (names, tree, problems) in enumerate(res):
        exp = expected_graph(chain_dict(SESSION_CHAINS[idx[gi]], "M", {}))
        for p in problems:
            fails.append((p + "@session", f"graph {gi} of session {seq}: {p}"))
        if tree is not None and tree != exp:
            fails.append(("graph-differs@session", f"graph {gi} of session {seq} (viewers built one after another in one process):\n observed {tree}\n expected {exp}"))
        if len(set(names)) != len(names):
            fails.append(("duplicate-node-names", f"graph {gi} of session {seq} has repeated node names {names}"))
        want = 1 + chains.graph_counts(chains.graph(chain_dict(SESSION_CHAINS[idx[gi]], "M", {})))
        if len(names) != want:
            fails.append(("node-count", f"graph {gi} of session {seq} has {len(names)} nodes, expected {want}"))
        for n in names:
            if n == "mother":
                continue
            if n in seen:
                fails.append(("ids-reused-across-graphs", f"session {seq}: node id {n} of graph {gi} was already used by graph {seen[n]}"))
                break
            seen[n] = gi
    return fails


def work_sessions(seqs):
    fails, outs = [], set()
    for s in seqs:
        f = check_session(s)
        for sig, d in f:
            fails.append(("session", {"seq": list(s)}, sig, d, len(s)))
        outs.add(short_hash(["session", s]))
    return {"fails": fails, "outcomes": outs, "traces": len(seqs)}


def exec_case(kind, payload):
    if kind == "chain":
        return check_chain(payload["chain"])
    if kind == "session":
        return check_session(payload["seq"])
    raise ValueError(kind)


def run(ctx):
    sc = scenarios(ctx)
    ctx.log(f"{len(sc)} chain dictionaries from table sets, {sum(1 for _ in class_chains())} from the class representation")
    run_tasks(ctx, work, [sc[i:i + 40] for i in range(0, len(sc), 40)])
    cc = [{p: dict(c) for p, c in d.items()} for d in class_chains()]
    run_tasks(ctx, work_class, [cc[i:i + 40] for i in range(0, len(cc), 40)])
    seqs = [s for n in range(1, (4 if ctx.thorough else 3) + 1) for s in itertools.product(range(len(SESSION_CHAINS)), repeat=n)]
    # viewers with a graph name of their own mixed with default-named ones (all sequences of length <= 2 over 3 chains x 3 names)
    named_ops = [[i, g] if g else i for i in (0, 1, 3) for g in (None, "Xdecays", "Other")]
    seqs += [list(s) for n in (1, 2, 3 if ctx.thorough else 2) for s in itertools.product(named_ops, repeat=n) if any(not isinstance(o, int) for o in s)]
    thread_ops = [0, 2, [0, "@thread"], [1, "@thread"], [2, "@thread"]]
    seqs += [list(s) for n in (1, 2, 3) for s in itertools.product(thread_ops, repeat=n) if any(not isinstance(o, int) for o in s)]
    run_tasks(ctx, work_sessions, [seqs[i:i + 4] for i in range(0, len(seqs), 4)])
    ctx.count(states=len(sc) + len(cc) + len(seqs), transitions=len(sc) + len(cc) + sum(len(s) for s in seqs))
    ctx.part("graphs", from_tables=len(sc), from_class=len(cc), renamings=len(RENAMES))
    ctx.part("sessions", histories=len(seqs), max_viewers=4 if ctx.thorough else 3, complete=True, note="incl. viewers given a graph name and viewers built in worker threads (<= 3 viewers)")
    ex = chain_dict(shapes.table_sets(1).__next__(), "M", RENAMES[1])
    t = {"M": [["X", "p"], ["q"]], "X": [["p", "q"], []]}
    ctx.sample({"chain": chain_dict(t, "M", RENAMES[1]), "expected_graph": repr(expected_graph(chain_dict(t, "M", RENAMES[1])))})
    ctx.extra["assumptions_list"] = ["dot (graphviz 2.43) is the trusted reader of the DOT text"]
    ctx.extra["excluded"] = ["the root node is named 'mother' in every graph by design: cross-graph uniqueness is asserted for decay-line nodes"]
