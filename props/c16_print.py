"""C16 — printed decay-mode tables show every mode once, correctly ordered and scaled (E2; DESIGN.md C16)."""
from __future__ import annotations

import itertools

from mc import decobs
from mc.core import pmap, short_hash, run_tasks
from mc.decobs import typed
from ref import decmodel, printing

BF_PATTERNS = {
    "distinct": ["0.2", "0.5", "0.3", "0.05", "0.15", "0.01", "0.02", "0.07"],
    "descending": ["0.5", "0.25", "0.125", "0.0625", "0.03125", "0.015625", "0.0078125", "0.00390625"],
    "ascending": ["0.001", "0.002", "0.004", "0.008", "0.016", "0.032", "0.064", "0.128"],
    "tie-pair": ["0.2", "0.3", "0.2", "0.1", "0.3", "0.05", "0.05", "0.2"],
    "tie-at-max": ["0.4", "0.1", "0.4", "0.4", "0.05", "0.4", "0.1", "0.05"],
    "all-equal": ["0.125"] * 8,
    "wide-range": ["1e-12", "1", "3.3392e-05", "6.5e-08", "0.988228297", "1.0e-3", "2E-4", "0.011738247"],
    "all-rare": ["6.84e-11", "3.9e-10", "1e-12", "2.5e-9", "6.84e-11", "7.7e-13", "4.6e-10", "1.1e-11"],   # sums far below 1e-6
    "many-digits": ["0.123456789", "0.987654321", "0.333333333333", "0.1234567", "0.12345675", "0.99999995", "0.00010000005", "0.5000000499"],
}
N_LINES = [1, 2, 3, 4, 5, 6, 7, 8]
FS_VARIANTS = [
    [["K-", "pi+"], ["K-", "pi+", "pi0"], [], ["D*(2010)+", "anti-nu_e"], ["pi0", "pi0", "pi0", "pi0"], ["gamma"], ["K_S0", "K_S0"], ["e+", "e-", "gamma"]],
    [["pi+", "K-"], ["b", "a", "c"], ["z"], ["y", "x"], ["K-", "pi+"], [], ["q"], ["pi0", "K-", "pi+"]],
    [["K-", "pi+"]] * 8,   # identical decay lines (same daughters and model): still one row each
]
MODEL_VARIANTS = [("PHSP", None), ("SVS", ["1.0", "w"]), ("HELAMP", ["1.0", "0.0", "-2.5", "dm"]), ("PYTHIA", ["42"])]
OPTION_SETS = [dict(print_model=pm, display_photos_keyword=dp, ascending=asc, **norm)
               for pm in (True, False) for dp in (True, False) for asc in (False, True)
               for norm in ({}, {"normalize": True}, {"scale": 1}, {"scale": 0.5}, {"scale": 1e-3}, {"scale": 1.0, "normalize": False})]
INVALID_OPTIONS = [dict(normalize=True, scale=0.5), dict(scale=0), dict(scale=-1), dict(scale=1.5), dict(scale=1 + 1e-9),
                   dict(normalize=True, scale=1.0, ascending=True), dict(scale=0.0, print_model=False),
                   # not numbers of (0, 1] either
                   dict(scale=float("nan")), dict(scale=float("inf")), dict(scale=float("-inf")), dict(scale=-0.0), dict(scale=float("nan"), ascending=True)]


def table_ast(pattern, n, fv, tag):
    lines = []
    for i in range(n):
        model, params = MODEL_VARIANTS[(i + fv) % len(MODEL_VARIANTS)] if fv != 2 else MODEL_VARIANTS[1]
        lines.append([BF_PATTERNS[pattern][i], FS_VARIANTS[fv][i], (i + fv) % 2 if fv != 2 else 0, model, params])
    return ["Decay", f"T{tag}", lines]


def check_table(p, mother, table, label):
    fails = []
    n = 0
    before = decobs.table_of(p, mother)
    for opts in OPTION_SETS:
        n += 1
        try:
            out = decobs.printed(p, mother, **opts)
        except Exception as e:  # noqa: BLE001
            fails.append((f"print-exception:{type(e).__name__}", f"print_decay_modes({mother}, {opts}) raised {e!r} [{label}]"))
            continue
        rows = [r for r in out.split("\n") if r.strip()]
        exp = printing.expected_rows(table, **opts)
        problem = None
        if len(rows) != len(exp):
            problem = "row-count"
        else:
            for r, (val, toks) in zip(rows, exp):
                if not r.endswith(";"):
                    problem = "row-format"
                    break
                got = r[:-1].split()
                if not got:
                    problem = "row-format"
                    break
                if got[1:] != toks:
                    # same multiset of rows in another order?
                    problem = "row-content"
                    break
                try:
                    ok = printing.close_7_digits(got[0], val)
                except ValueError:
                    ok = False
                if not ok:
                    problem = "value"
                    break
            if problem == "row-content":
                if sorted(tuple(r[:-1].split()[1:]) for r in rows) == sorted(tuple(t) for _v, t in exp):
                    problem = "row-order"
        if problem:
            key = "ascending" if opts.get("ascending") else "descending"
            mode = "normalize" if opts.get("normalize") else "scale" if "scale" in opts else "plain"
            fails.append((f"print:{problem}:{key}:{mode}", f"print_decay_modes({mother}, {opts}) [{label}] printed\n{out}expected rows {[(float(v), t) for v, t in exp]}"))
    for opts in INVALID_OPTIONS:
        n += 1
        try:
            out = decobs.printed(p, mother, **opts)
            fails.append(("invalid-options-accepted", f"print_decay_modes({mother}, {opts}) was accepted and printed {out!r}"))
        except RuntimeError:
            pass
        except Exception as e:  # noqa: BLE001
            fails.append((f"invalid-options-exception:{type(e).__name__}", f"print_decay_modes({mother}, {opts}) raised {e!r} instead of RuntimeError"))
    after = decobs.table_of(p, mother)
    if typed(before) != typed(after):
        fails.append(("stored-values-changed", f"printing changed the stored modes of {mother}: {before} -> {after}"))
    return fails, n


def check_case(case, tag=""):
    pattern, n, fv = case
    # the table itself, a CopyDecay copy of it and its CDecay conjugate are all printed
    ast = [["Define", "dm", "0.5"], table_ast(pattern, n, fv, tag), ["CopyDecay", f"Tcopy{tag}", f"T{tag}"],
           ["ChargeConj", f"T{tag}", f"Tbar{tag}"], ["CDecay", f"Tbar{tag}"]]
    p = decobs.parse_text(decmodel.render(ast))
    tables = decmodel.semantics(ast)["tables"]
    fails, ntot = [], 0
    for m in (f"T{tag}", f"Tcopy{tag}", f"Tbar{tag}", f"T{tag}"):
        f, k = check_table(p, m, tables[m], f"pattern {pattern}, {n} lines, fs variant {fv}, mother {m}")
        fails += f
        ntot += k
    return fails, ntot


def check_special():
    """Mother given by PDG name; unknown mother."""
    fails = []
    ast = [["Decay", "K_S0", [["0.69", ["pi+", "pi-"], 0, "PHSP", None], ["0.31", ["pi0", "pi0"], 1, "PHSP", None]]]]
    p = decobs.parse_text(decmodel.render(ast))
    table = decmodel.semantics(ast)["tables"]["K_S0"]
    for opts in ({}, {"ascending": True}, {"scale": 0.5, "ascending": True, "print_model": False}):
        out = decobs.printed(p, "K(S)0", pdg_name=True, **opts)
        exp = printing.expected_rows(table, **opts)
        rows = [r[:-1].split() for r in out.split("\n") if r.strip()]
        if [r[1:] for r in rows] != [t for _v, t in exp] or not all(printing.close_7_digits(r[0], v) for r, (v, _t) in zip(rows, exp)):
            fails.append(("print:pdg-name", f"print_decay_modes('K(S)0', pdg_name=True, {opts}) printed\n{out}expected {[(float(v), t) for v, t in exp]}"))
    try:
        decobs.printed(p, "NoSuchMother")
        fails.append(("unknown-mother-accepted", "print_decay_modes of an unknown mother did not raise"))
    except decobs.DecayNotFound:
        pass
    except Exception as e:  # noqa: BLE001
        fails.append((f"unknown-mother-exception:{type(e).__name__}", repr(e)))
    return fails


def exec_case(kind, payload):
    if kind == "table":
        return check_case(tuple(payload))[0]
    if kind == "special":
        return check_special()
    raise ValueError(kind)


def work(cases):
    fails, outs = [], set()
    ntr = 0
    for case in cases:
        if case == "special":
            f, n = check_special(), 4
            kind, payload = "special", {}
        else:
            f, n = check_case(case)
            kind, payload = "table", list(case)
        ntr += n
        for sig, d in f:
            fails.append((kind, payload, sig, d, case[1] if case != "special" else 0))
        outs.add(short_hash(case) if not f else "F")
    return {"fails": fails, "outcomes": outs, "traces": ntr}


def run(ctx):
    cases = [(pat, n, fv) for pat in BF_PATTERNS for n in N_LINES for fv in range(len(FS_VARIANTS))]
    ctx.log(f"{len(cases)} tables x {len(OPTION_SETS)} option combinations + {len(INVALID_OPTIONS)} invalid ones")
    run_tasks(ctx, work, [cases[i:i + 6] for i in range(0, len(cases), 6)] + [["special"]])
    ctx.count(states=len(cases) + 1, transitions=ctx.traces)
    ctx.part("tables", tables=len(cases), bf_patterns=list(BF_PATTERNS), n_lines=N_LINES, option_sets=len(OPTION_SETS), invalid_option_sets=len(INVALID_OPTIONS), complete=True)
    ex = ("tie-at-max", 4, 0)
    ast = [table_ast(*ex, "")]
    ctx.sample({"case": ex, "text": decmodel.render(ast), "options": {"ascending": True, "scale": 0.5},
                "expected_rows": [(float(v), t) for v, t in printing.expected_rows(decmodel.semantics(ast)["tables"]["T"], ascending=True, scale=0.5)]})
    ctx.extra["excluded"] = ["tables without lines", "branching fractions equal to 0"]
