"""C17 — AmpGen option files are read into the amplitudes and tables they state (E2, forked; DESIGN.md C17)."""
from __future__ import annotations

import cmath

from mc import dbe, isolate
from mc.core import pmap, run_forked, short_hash, run_tasks
from ref import ampgen
from ref.ampgen import leaf

Kst = ["K*(892)bar0", None, None, [leaf("K-"), leaf("pi+")]]
rho = ["rho(770)0", None, None, [leaf("pi+"), leaf("pi-")]]
phi = ["phi(1020)0", None, None, [leaf("K+"), leaf("K-")]]
EVENT_TYPES = [
    ["D0", "K-", "pi+", "pi+", "pi-"],
    ["D0", "K+", "K-", "pi+", "pi-"],
    ["D0", "pi+", "pi-", "pi+", "pi-"],
]
TOPS = [
    [  # D0 -> K- pi+ pi+ pi-
        ["D0", None, None, [Kst, rho]],
        ["D0", "D", None, [leaf("K*(892)bar0"), leaf("rho(770)0")]],
        ["D0", None, None, [leaf("K(1)(1270)bar-"), leaf("pi+")]],
        ["D0", None, None, [["K(1)(1270)bar-", None, "GSpline.EFF", [leaf("rho(770)0"), leaf("K-")]], leaf("pi+")]],
        ["D0", None, None, [leaf("a(1)(1260)+"), leaf("K-")]],
        ["D0", "P", None, [leaf("rho(770)0"), Kst]],
        ["D0", None, None, [leaf("KPi00"), leaf("PiPi00")]],
    ],
    [  # D0 -> K+ K- pi+ pi-
        ["D0", None, None, [phi, rho]],
        ["D0", "P", None, [leaf("phi(1020)0"), leaf("rho(770)0")]],
        ["D0", None, None, [["K(1)(1270)+", None, None, [leaf("rho(770)0"), leaf("K+")]], leaf("K-")]],
        ["D0", "D", None, [leaf("rho(770)0"), phi]],
    ],
    [  # D0 -> pi+ pi- pi+ pi-
        ["D0", None, None, [rho, rho]],
        ["D0", None, None, [leaf("a(1)(1260)+"), leaf("pi-")]],
        ["D0", "D", None, [leaf("rho(770)0"), leaf("rho(770)0")]],
        ["D0", None, None, [leaf("PiPi00"), leaf("PiPi10")]],
    ],
]
PARTIALS = [
    [
        ["rho(770)0", None, None, [leaf("pi+"), leaf("pi-")]],
        ["K*(892)bar0", None, None, [leaf("K-"), leaf("pi+")]],
        ["rho(770)0", "P", None, [leaf("pi-"), leaf("pi+")]],
        ["K*(892)bar0", None, "FOCUS.Kpi", [leaf("K-"), leaf("pi+")]],
        ["K(1)(1270)bar-", "D", "GSpline.EFF", [leaf("K*(892)bar0"), leaf("pi-")]],
        ["K(1)(1270)bar-", None, None, [leaf("rho(770)0"), leaf("K-")]],
        ["K(1)(1270)bar-", None, "GSpline.EFF", [["omega(782)0", None, None, [leaf("pi+"), leaf("pi-")]], leaf("K-")]],
        ["a(1)(1260)+", None, None, [leaf("rho(770)0"), leaf("pi+")]],
        ["a(1)(1260)+", "D", "GSpline.EFF", [["PiPi00", None, "kMatrix.pole.1", [leaf("pi+"), leaf("pi-")]], leaf("pi+")]],
        ["KPi00", None, "FOCUS.Kpi", [leaf("K-"), leaf("pi+")]],
        ["PiPi00", None, "kMatrix.pole.1", [leaf("pi+"), leaf("pi-")]],
        ["PiPi00", None, "kMatrix.prod.0", [leaf("pi+"), leaf("pi-")]],
    ],
    [
        ["phi(1020)0", None, None, [leaf("K+"), leaf("K-")]],
        ["rho(770)0", None, None, [leaf("pi+"), leaf("pi-")]],
        ["rho(770)0", "S", "GSpline.EFF", [leaf("pi-"), leaf("pi+")]],
        ["phi(1020)0", "P", None, [leaf("K-"), leaf("K+")]],
    ],
    [
        ["rho(770)0", None, None, [leaf("pi+"), leaf("pi-")]],
        ["a(1)(1260)+", None, None, [leaf("rho(770)0"), leaf("pi+")]],
        ["a(1)(1260)+", "D", None, [leaf("PiPi00"), leaf("pi+")]],
        ["PiPi00", None, "kMatrix.pole.1", [leaf("pi+"), leaf("pi-")]],
        ["PiPi10", None, "kMatrix.prod.0", [leaf("pi+"), leaf("pi-")]],
        ["rho(770)0", "P", None, [leaf("pi-"), leaf("pi+")]],
    ],
]
# the default coupling must not be degenerate (1*exp(0i) == 1+0i would hide a polar/cartesian mix-up)
COUPLINGS = [("0.5", "2.0"), ("1.0", "0.0"), ("0.36", "-1.99"), ("2", "3.14159"), ("0", "1"), ("-2.6", "0.5"), ("1e-1", "-3E-1"), ("0.7", "5.5"), ("1.2", "-4.0")]
# rows 2 and 4 of each table carry the same numbers as an earlier row (every line is a row of its own)
PARAMS = [["D0_radius", "2", "0.0037559", "0"], ["IS_p1_pipi", "2", "0.0037559", "0"], ["f_scatt1", "0", "-0.5", "1e-2"], ["s0_prod", "0", "-0.5", "1e-2"]]
CONSTS = [["a(1)(1260)+::Spline::Min", "0.18412"], ["a(1)(1260)+::Spline::N", "40"], ["K(1)(1270)bar-::Spline::N", "40"]]


def gen(c):
    ev = c.choose("event_type", [0, 1, 2])
    n_top = c.choose("n_top", [1, 2, 3, 4])
    top0 = c.choose("first_top", list(range(len(TOPS[ev]))))
    n_part = c.choose("n_partial", [0, 1, 2, 3, 4, 6])
    part0 = c.choose("first_partial", list(range(len(PARTIALS[ev]))))
    order = c.choose("file_order", ["tops-first", "partials-first", "interleaved", "event-type-last"])
    coup = c.choose("couplings", list(range(len(COUPLINGS))))
    flags = c.choose("fix_flags", [("0", "0"), ("2", "2"), ("0", "2"), ("2", "0")])
    n_par = c.choose("n_params", [0, 1, 2, 4])
    n_const = c.choose("n_consts", [0, 1, 3])
    layout = c.choose("layout", ["plain", "comments", "blank-lines", "crlf", "leading-newline", "indented"])
    opt = c.choose("cartesian_option", [None, "0", "1"])
    opt_pos = c.choose("option_position", ["start", "middle", "end"]) if opt is not None else None
    extras = c.choose("other_options", [[], [["Output", '"out.root"']], [["nEvents", "1000"]], [["nEvents", "5"], ["Output", '"a b.root"']]])
    tops = [TOPS[ev][(top0 + i) % len(TOPS[ev])] for i in range(min(n_top, len(TOPS[ev])))]
    parts = [PARTIALS[ev][(part0 + i) % len(PARTIALS[ev])] for i in range(min(n_part, len(PARTIALS[ev])))]

    def line(t, j):
        a, b = COUPLINGS[(coup + j) % len(COUPLINGS)]
        return ["Line", t, [flags[0], a, "0.1"], [flags[1], b, "0.2"]]

    tl = [line(t, j) for j, t in enumerate(tops)]
    pl = [line(t, j + 3) for j, t in enumerate(parts)]
    if order == "partials-first":
        body = pl + tl
    elif order == "interleaved":
        body = [x for pair in zip(tl, pl) for x in pair] + tl[len(pl):] + pl[len(tl):]
    else:
        body = tl + pl
    ast = [] if order == "event-type-last" else [["EventType", EVENT_TYPES[ev]]]
    ast += [["Const"] + x for x in CONSTS[:n_const]]
    ast += body
    ast += [["Param"] + x for x in PARAMS[:n_par]]
    ast += extras
    if order == "event-type-last":
        ast.append(["EventType", EVENT_TYPES[ev]])
    if opt is not None:
        pos = {"start": 0, "middle": len(ast) // 2, "end": len(ast)}[opt_pos]
        ast.insert(pos, ["Option", "FastCoherentSum::UseCartesian", opt])
    if layout == "comments":
        ast = [["Raw", "# header comment"]] + [x for st in ast for x in (st, ["Raw", "# c {,} [S] 1 2"])]
    elif layout == "blank-lines":
        ast = [x for st in ast for x in (st, ["Raw", ""], ["Raw", "   "])]
    elif layout == "leading-newline":
        ast = [["Raw", ""]] + ast
    elif layout == "indented":
        ast = [["Raw", "  \t" + ampgen.render_stmt(st) + "   "] for st in ast]
    return {"ast": ast, "crlf": layout == "crlf"}


# ---- complete family of expansion shapes -----------------------------------------------------------
def expansion_shapes():
    """Every combination of 0..3 alternative sub-lines for the names that occur as undecayed daughters, over tops in
    which one name occurs twice, in two different positions, and below another substituted name."""
    rho_alts = [["rho(770)0", None, None, [leaf("pi+"), leaf("pi-")]], ["rho(770)0", "P", None, [leaf("pi-"), leaf("pi+")]],
                ["rho(770)0", None, "GSpline.EFF", [leaf("pi+"), leaf("pi-")]]]
    a1_alts = [["a(1)(1260)+", None, None, [leaf("rho(770)0"), leaf("pi+")]], ["a(1)(1260)+", "D", None, [leaf("rho(770)0"), leaf("pi+")]],
               ["a(1)(1260)+", None, "GSpline.EFF", [["PiPi00", None, "kMatrix.pole.1", [leaf("pi+"), leaf("pi-")]], leaf("pi+")]]]
    kst_alts = [["K*(892)bar0", None, None, [leaf("K-"), leaf("pi+")]], ["K*(892)bar0", None, "FOCUS.Kpi", [leaf("K-"), leaf("pi+")]]]
    k1_alts = [["K(1)(1270)bar-", None, None, [leaf("rho(770)0"), leaf("K-")]], ["K(1)(1270)bar-", "D", "GSpline.EFF", [leaf("rho(770)0"), leaf("K-")]],
               ["K(1)(1270)bar-", None, None, [leaf("K*(892)bar0"), leaf("pi-")]]]
    fams = [
        (2, [["D0", None, None, [leaf("rho(770)0"), leaf("rho(770)0")]]], [rho_alts]),
        (2, [["D0", None, None, [leaf("a(1)(1260)+"), leaf("pi-")]], ["D0", "D", None, [leaf("rho(770)0"), leaf("rho(770)0")]]], [a1_alts, rho_alts]),
        (0, [["D0", None, None, [leaf("K*(892)bar0"), leaf("rho(770)0")]]], [kst_alts, rho_alts]),
        (0, [["D0", None, None, [leaf("K(1)(1270)bar-"), leaf("pi+")]], ["D0", "P", None, [leaf("rho(770)0"), leaf("K*(892)bar0")]]], [k1_alts, rho_alts, kst_alts]),
    ]
    import itertools as _it
    for ev, tops, pools in fams:
        for counts in _it.product(*[range(len(p) + 1) for p in pools]):
            for order in ("tops-first", "partials-first"):
                parts = [alt for pool, n in zip(pools, counts) for alt in pool[:n]]
                yield {"ev": ev, "tops": tops, "parts": parts, "order": order}
    # lines with equal trees: every line of the file is an amplitude (or an alternative) of its own, whether it
    # repeats an earlier line verbatim or differs from it only by its couplings
    for ev, tops, pools in fams:
        alts = [pool[0] for pool in pools]
        for same_numbers in (False, True):
            for order in ("tops-first", "partials-first", "apart"):
                # the first top line once more (at the end of the top lines)
                t2 = tops + [tops[0]]
                yield {"ev": ev, "tops": t2, "parts": alts, "order": order,
                       "tcoup": list(range(len(tops))) + [0 if same_numbers else 5], "pcoup": [2 + i for i in range(len(alts))]}
                # the first alternative of the first open name once more, after the other alternatives
                p2 = alts + [alts[0]]
                yield {"ev": ev, "tops": tops, "parts": p2, "order": order,
                       "tcoup": list(range(len(tops))), "pcoup": [2 + i for i in range(len(alts))] + [2 if same_numbers else 6]}
                # both
                yield {"ev": ev, "tops": t2, "parts": p2, "order": order,
                       "tcoup": list(range(len(tops))) + [0 if same_numbers else 5], "pcoup": [2 + i for i in range(len(alts))] + [2 if same_numbers else 6]}


def shape_scenario(sh):
    def line(t, j):
        a, b = COUPLINGS[j % len(COUPLINGS)]
        return ["Line", t, ["0", a, "0.1"], ["2", b, "0.2"]]
    tl = [line(t, j) for j, t in zip(sh.get("tcoup") or range(len(sh["tops"])), sh["tops"])]
    pl = [line(t, j) for j, t in zip(sh.get("pcoup") or range(2, 2 + len(sh["parts"])), sh["parts"])]
    if sh["order"] == "apart":
        # repeated lines as far from their first occurrence as possible: last top line first, last partial line first
        body = tl[-1:] + pl[-1:] + tl[:-1] + pl[:-1]
    else:
        body = pl + tl if sh["order"] == "partials-first" else tl + pl
    ast = [["EventType", EVENT_TYPES[sh["ev"]]]] + body
    return {"ast": ast, "crlf": False}


def check_shape(sh):
    sc = shape_scenario(sh)
    text = text_of(sc)
    obs = run_forked(observe, text)
    return compare(ampgen.semantics(sc["ast"]), obs, text)


def work_shapes(items):
    fails, outs = [], set()
    for sh in items:
        f = check_shape(sh)
        for s_, d in f:
            fails.append(("shape", sh, s_, d, len(sh["parts"])))
        outs.add("F" if f else short_hash(sh))
    return {"fails": fails, "outcomes": outs, "traces": len(items)}


def text_of(sc):
    return ampgen.render(sc["ast"], "\r\n" if sc["crlf"] else "\n")


def sem_of(sc):
    """Semantics of the scenario (Raw lines that carry rendered statements are re-read from their origin)."""
    return sc["sem"]


def sig(line):
    return (int(line.particle.pdgid), line.spinfactor, line.lineshape, [sig(d) for d in line.daughters] if line.daughters else None)


def observe(text):
    """Runs in a forked child: read the text with the real reader and return plain observations."""
    from decaylanguage.modeling.amplitudechain import AmplitudeChain

    try:
        lines, pars, consts, states = AmplitudeChain.read_ampgen(text=text)
    except Exception as e:  # noqa: BLE001
        return ("exc", type(e).__name__, str(e)[:300])
    return ("ok", {
        "event_type": [int(p.pdgid) for p in states],
        "amplitudes": [(sig(ln), complex(ln.amp)) for ln in lines],
        "parameters": [(name, bool(r.fix), float(r.value), float(r.error)) for name, r in pars.iterrows()],
        "constants": [(name, float(r.value)) for name, r in consts.iterrows()],
        "cartesian": bool(AmplitudeChain.cartesian),
    })


def compare(sem, obs, text):
    if obs[0] != "ok":
        return [(f"read-exception:{obs[1]}", f"read_ampgen raised {obs[1]}: {obs[2]}\n{text}")]
    got = obs[1]
    fails = []
    if got["event_type"] != sem["event_type"]:
        fails.append(("event-type", f"event type {got['event_type']}, expected {sem['event_type']}\n{text}"))
    if got["parameters"] != sem["parameters"]:
        fails.append(("parameter-table", f"parameters {got['parameters']}, expected {sem['parameters']}\n{text}"))
    if got["constants"] != sem["constants"]:
        fails.append(("constants-table", f"constants {got['constants']}, expected {sem['constants']}\n{text}"))
    ga, ea = got["amplitudes"], sem["amplitudes"]
    if [g[0] for g in ga] != [e[0] for e in ea]:
        kind = "amplitude-count" if len(ga) != len(ea) else "amplitude-trees"
        if len(ga) == len(ea) and sorted(map(repr, (g[0] for g in ga))) == sorted(map(repr, (e[0] for e in ea))):
            kind = "amplitude-order"
        fails.append((kind, f"{len(ga)} amplitudes {[g[0] for g in ga][:4]}..., expected {len(ea)}: {[e[0] for e in ea][:4]}...\n{text}"))
    else:
        for (gs, gamp), (_es, eamp) in zip(ga, ea):
            if abs(gamp - eamp) > 1e-12:
                fails.append(("coupling", f"amplitude {gs}: coupling {gamp}, expected {eamp} (cartesian={sem['cartesian']})\n{text}"))
                break
    return fails


def semantics_of_ast(ast):
    """Raw lines carrying a rendered statement (the 'indented' layout) are not statements of the AST: keep the
    semantic AST separately."""
    return ampgen.semantics(ast)


def build(choices):
    sc = dbe.replay(gen, choices)
    # semantic AST = the scenario without layout
    plain = dbe.replay(lambda c: gen(_NoLayout(c)), choices)
    return sc, ampgen.semantics(plain["ast"])


class _NoLayout:
    """Chooser proxy that answers 'plain' for the layout choice (choice vector stays aligned)."""

    def __init__(self, c):
        self.c = c

    def choose(self, name, domain, free=False):
        v = self.c.choose(name, domain, free)
        return "plain" if name == "layout" else v

    def flag(self, name, free=False):
        return self.c.flag(name, free)


def check_choices(choices, memo=True):
    sc, sem = build(choices)
    text = text_of(sc)
    obs = run_forked(observe, text)
    return compare(sem, obs, text)


def exec_case(kind, payload):
    isolate.warm(sorted(ampgen.PID))
    if kind == "shape":
        return check_shape(payload)
    if kind == "choices-file":
        return [(a + "@filename", b) for a, b in [(x[2].replace("@filename", ""), x[3]) for x in work_file_entry([tuple(payload["choices"])])["fails"]]]
    return check_choices(tuple(payload["choices"]))


def work(items):
    fails, outs = [], set()
    for choices, ndev in items:
        f = check_choices(choices)
        for s, d in f:
            fails.append(("choices", {"choices": list(choices)}, s, d, ndev))
        outs.add("F" if f else short_hash(build(choices)[1]["amplitudes"]))
    return {"fails": fails, "outcomes": outs, "traces": len(items)}


def observe_file(text):
    """The same reader given a file name instead of the text (also with CRLF line ends kept: binary write)."""
    import os
    import tempfile
    fd, path = tempfile.mkstemp(suffix=".opt", prefix="c17_")
    with os.fdopen(fd, "wb") as f:
        f.write(text.encode("utf8"))
    try:
        from decaylanguage.modeling.amplitudechain import AmplitudeChain
        try:
            lines, pars, consts, states = AmplitudeChain.read_ampgen(path)
        except Exception as e:  # noqa: BLE001
            return ("exc", type(e).__name__, str(e)[:300])
        return ("ok", {
            "event_type": [int(p.pdgid) for p in states],
            "amplitudes": [(sig(ln), complex(ln.amp)) for ln in lines],
            "parameters": [(name, bool(r.fix), float(r.value), float(r.error)) for name, r in pars.iterrows()],
            "constants": [(name, float(r.value)) for name, r in consts.iterrows()],
            "cartesian": bool(AmplitudeChain.cartesian),
        })
    finally:
        os.unlink(path)


def work_file_entry(items):
    """Entry-point variant: read_ampgen(filename) must give what read_ampgen(text=...) gives."""
    fails = []
    for choices in items:
        sc, sem = build(choices)
        text = text_of(sc)
        obs = run_forked(observe_file, text)
        for s_, d in compare(sem, obs, text):
            fails.append(("choices-file", {"choices": list(choices)}, s_ + "@filename", d, 1))
    return {"fails": fails, "outcomes": set(), "traces": len(items)}


def work_nomemo(items):
    """Soundness of the memo seam: the same scenario without the memo gives the same observations."""
    fails = []
    for choices in items:
        sc, _sem = build(choices)
        text = text_of(sc)
        with_memo = run_forked(observe, text)
        isolate.uninstall_memo()
        try:
            without = run_forked(observe, text)
        finally:
            isolate.install_memo()
        if with_memo != without:
            fails.append(("choices", {"choices": list(choices)}, "memo-seam-unsound", f"observations differ with and without the name-lookup memo\n{text}", 0))
    return {"fails": fails, "outcomes": set(), "traces": len(items)}


def run(ctx):
    isolate.warm(sorted(ampgen.PID))
    bound = 3 if ctx.thorough else 2
    stats = {}
    items = [(ch, nd) for ch, nd, _sc in dbe.explore(gen, bound, stats)]
    ctx.log(f"{len(items)} option texts with <= {bound} deviations, each read in a forked child")
    sc0, _ = build(items[0][0])
    ctx.sample({"choices": list(items[0][0]), "text": text_of(sc0)})
    big = max(items, key=lambda x: x[1])
    ctx.sample({"choices": list(big[0]), "text": text_of(build(big[0])[0])})
    ctx.rng.shuffle(items)
    run_tasks(ctx, work, [items[i:i + 12] for i in range(0, len(items), 12)])
    shapes_ = list(expansion_shapes())
    ctx.log(f"{len(shapes_)} expansion shapes (0..3 alternatives per undecayed name, repeated names), complete")
    run_tasks(ctx, work_shapes, [shapes_[i:i + 6] for i in range(0, len(shapes_), 6)])
    ctx.count(states=len(shapes_), transitions=sum(len(x["parts"]) + len(x["tops"]) for x in shapes_))
    ctx.part("expansion-shapes", cases=len(shapes_), complete=True)
    entry = [ch for ch, nd in items if nd <= 1]
    run_tasks(ctx, work_file_entry, [entry[i:i + 6] for i in range(0, len(entry), 6)])
    ctx.part("file-name-entry", scenarios=len(entry))
    small = [ch for ch, nd in items if nd <= 1][: (None if ctx.thorough else 24)]
    run_tasks(ctx, work_nomemo, [small[i:i + 2] for i in range(0, len(small), 2)])
    ctx.count(states=stats["nodes"], transitions=stats["choices"])
    ctx.part("option-texts", scenarios=len(items), deviation_bound=bound, per_dimension_max=stats["per_dimension_max"], memo_seam_checked=len(small))
    ctx.extra["assumptions_list"] = ["name-lookup memo keyed by (name, size of the particle table) is behaviour-preserving (checked on the <=1-deviation scenarios)"]
    ctx.extra["excluded"] = ["particle names outside the hand-written vocabulary table", "self-referential partial lines", "the amplitude fix attribute (not stated by the property; DESIGN 9.3)"]
