"""C18 — each amplitude is emitted with exactly its Bose-symmetrised permutations (E2, exhaustive; DESIGN.md C18)."""
from __future__ import annotations

import itertools

from mc import isolate, shapes
from mc.core import pmap, run_forked, short_hash, run_tasks
from ref import ampgen
from ref.ampgen import leaf

LS_TAGS = [None, "GSpline.EFF", "kMatrix.pole.1", "FOCUS.Kpi"]


def R(name, a, b, sp=None):
    return [name, sp, None, [leaf(a), leaf(b)]]


def casc(res, inner, bachelor, sp=None):
    return [res, sp, None, [inner, leaf(bachelor)]]


STRUCTS = {
    0: {  # event type over K- pi+ pi+ pi-
        "VV_S": ["D0", None, None, [R("K*(892)bar0", "K-", "pi+"), R("rho(770)0", "pi+", "pi-")]],
        "VV_Stag": ["D0", "S", None, [R("K*(892)bar0", "K-", "pi+"), R("rho(770)0", "pi+", "pi-")]],
        "VV_P": ["D0", "P", None, [R("K*(892)bar0", "pi+", "K-"), R("rho(770)0", "pi+", "pi-")]],
        "VV_D": ["D0", "D", None, [R("rho(770)0", "pi-", "pi+"), R("K*(892)bar0", "K-", "pi+")]],
        "VS": ["D0", None, None, [R("K*(892)bar0", "K-", "pi+"), R("PiPi00", "pi+", "pi-")]],
        "VS2": ["D0", None, None, [R("rho(770)0", "pi+", "pi-"), R("KPi00", "K-", "pi+")]],
        "SS": ["D0", None, None, [R("KPi00", "K-", "pi+"), R("PiPi00", "pi+", "pi-")]],
        "A_VP": ["D0", None, None, [casc("K(1)(1270)bar-", R("K*(892)bar0", "K-", "pi+"), "pi-"), leaf("pi+")]],
        "A_VP_D": ["D0", None, None, [casc("K(1)(1270)bar-", R("K*(892)bar0", "K-", "pi+"), "pi-", "D"), leaf("pi+")]],
        "A_VP2": ["D0", None, None, [casc("a(1)(1260)+", R("rho(770)0", "pi+", "pi-"), "pi+"), leaf("K-")]],
        "A_SP": ["D0", None, None, [casc("a(1)(1260)+", R("PiPi00", "pi+", "pi-"), "pi+"), leaf("K-")]],
        "A_SP2": ["D0", None, None, [casc("K(1)(1270)bar-", R("KPi00", "K-", "pi+"), "pi-"), leaf("pi+")]],
        "T_VP": ["D0", None, None, [casc("K(2)*(1430)bar-", R("K*(892)bar0", "K-", "pi+"), "pi-"), leaf("pi+")]],
        "s_SP": ["D0", None, None, [casc("K(1460)bar-", R("KPi00", "K-", "pi+"), "pi-"), leaf("pi+")]],
        "s_VP": ["D0", None, None, [casc("K(1460)bar-", R("K*(892)bar0", "K-", "pi+"), "pi-"), leaf("pi+")]],
        "s_VP_K": ["D0", None, None, [casc("K(1460)bar-", R("rho(770)0", "pi+", "pi-"), "K-"), leaf("pi+")]],
    },
    1: {  # K+ K- pi+ pi-  (one permutation)
        "VV_S": ["D0", None, None, [R("phi(1020)0", "K+", "K-"), R("rho(770)0", "pi+", "pi-")]],
        "VV_D": ["D0", "D", None, [R("rho(770)0", "pi+", "pi-"), R("phi(1020)0", "K-", "K+")]],
        "A_VP": ["D0", None, None, [casc("K(1)(1270)+", R("rho(770)0", "pi+", "pi-"), "K+"), leaf("K-")]],
    },
    2: {  # pi+ pi- pi+ pi-  (four permutations)
        "VV_S": ["D0", None, None, [R("rho(770)0", "pi+", "pi-"), R("rho(770)0", "pi+", "pi-")]],
        "VV_P": ["D0", "P", None, [R("rho(770)0", "pi-", "pi+"), R("rho(770)0", "pi+", "pi-")]],
        "SS": ["D0", None, None, [R("PiPi00", "pi+", "pi-"), R("PiPi10", "pi+", "pi-")]],
        "VS": ["D0", None, None, [R("rho(770)0", "pi+", "pi-"), R("PiPi00", "pi-", "pi+")]],
        "A_VP": ["D0", None, None, [casc("a(1)(1260)+", R("rho(770)0", "pi+", "pi-"), "pi+"), leaf("pi-")]],
        "A_VP_D": ["D0", None, None, [casc("a(1)(1260)+", R("rho(770)0", "pi+", "pi-"), "pi+", "D"), leaf("pi-")]],
        "A_SP": ["D0", None, None, [casc("a(1)(1260)-", R("PiPi00", "pi+", "pi-"), "pi-"), leaf("pi+")]],
    },
    3: {  # eta pi0 pi0 pi0  (three identical particles: six permutations)
        "SS": ["D0", None, None, [R("a(0)(980)0", "eta", "pi0"), R("f(0)(980)0", "pi0", "pi0")]],
        "A_SP": ["D0", None, None, [casc("a(1)(1260)0", R("f(0)(980)0", "pi0", "pi0"), "pi0"), leaf("eta")]],
    },
    4: {  # pi0 pi0 pi0 pi0  (four identical particles: 24 permutations)
        "SS": ["D0", None, None, [R("f(0)(980)0", "pi0", "pi0"), R("f(0)(500)", "pi0", "pi0")]],
    },
}
EVENT_ORDERS = {
    0: [["K-", "pi+", "pi+", "pi-"], ["pi+", "K-", "pi-", "pi+"], ["pi-", "pi+", "pi+", "K-"]],
    1: [["K+", "K-", "pi+", "pi-"], ["pi-", "K-", "pi+", "K+"]],
    2: [["pi+", "pi-", "pi+", "pi-"], ["pi+", "pi+", "pi-", "pi-"], ["pi-", "pi+", "pi+", "pi-"]],
    3: [["eta", "pi0", "pi0", "pi0"], ["pi0", "eta", "pi0", "pi0"], ["pi0", "pi0", "pi0", "eta"]],
    4: [["pi0", "pi0", "pi0", "pi0"]],
}


def with_lineshapes(t, tags):
    """Copy of tree t with the lineshape tags assigned to its vertexes in depth-first order."""
    it = iter(tags)

    def rec(x, top):
        n, sp, ls, ds = x
        if not ds:
            return x
        new_ls = ls
        if not top and len(ds) == 2:
            new_ls = next(it)
        return [n, sp, new_ls, [rec(d, False) for d in ds]]

    return rec(t, True)


def file_ast(ev, order, struct, ls_pairs):
    lines = []
    consts = {}
    for tags in ls_pairs:
        t = with_lineshapes(STRUCTS[ev][struct], tags)
        for v in ampgen.vertexes(t):
            if v[2] == "GSpline.EFF":
                consts[v[0]] = True
        lines.append(["Line", t, ["0", "0.5", "0.1"], ["0", "2.0", "0.2"]])
    ast = [["EventType", ["D0"] + EVENT_ORDERS[ev][order]]]
    for name in consts:
        ast += [["Const", f"{name}::Spline::Min", "0.1"], ["Const", f"{name}::Spline::Max", "1.9"], ["Const", f"{name}::Spline::N", "4"]]
    return ast + lines


def observe(args):
    text, cls_name = args
    from decaylanguage.modeling.goofit import GooFitChain, GooFitPyChain

    cls = GooFitChain if cls_name == "cpp" else GooFitPyChain
    try:
        lines, states = cls.read_ampgen(text=text)
    except Exception as e:  # noqa: BLE001
        return ("exc", f"read: {type(e).__name__}: {e!s:.200}")
    out = []
    for ln in lines:
        try:
            first = ([tuple(s) for s in ln.list_structure(states[1:])], ln.to_goofit(states[1:]))
            again = ([tuple(s) for s in ln.list_structure(states[1:])], ln.to_goofit(states[1:]))
            out.append((str(ln), first[0], first[1] if first == again else "EXC not repeatable: asking the same line twice gives different code"))
        except Exception as e:  # noqa: BLE001
            out.append((str(ln), None, f"EXC {type(e).__name__}: {e!s:.200}"))
    return ("ok", out)


def check_file(ev, order, struct, ls_pairs, lang):
    ast = file_ast(ev, order, struct, ls_pairs)
    return check_trees(ast, [s[1] for s in ast if s[0] == "Line"], EVENT_ORDERS[ev][order], lang)


# files whose complete lines arise by substitution of separately given lines: two open names with two alternatives each,
# at the top and inside a cascade (the amplitudes must come in input order: first daughter slowest)
_KST, _RHO = "K*(892)bar0", "rho(770)0"
EXPANDED_FILES = [
    [["D0", None, None, [ampgen.leaf(_KST), ampgen.leaf(_RHO)]], ["D0", "P", None, [ampgen.leaf(_KST), ampgen.leaf(_RHO)]],
     [_KST, None, None, [ampgen.leaf("K-"), ampgen.leaf("pi+")]], [_KST, None, "GSpline.EFF", [ampgen.leaf("K-"), ampgen.leaf("pi+")]],
     [_RHO, None, None, [ampgen.leaf("pi+"), ampgen.leaf("pi-")]], [_RHO, None, "GSpline.EFF", [ampgen.leaf("pi+"), ampgen.leaf("pi-")]]],
    [["D0", None, None, [ampgen.leaf("K(1)(1270)bar-"), ampgen.leaf("pi+")]],
     [_RHO, None, "GSpline.EFF", [ampgen.leaf("pi+"), ampgen.leaf("pi-")]],
     ["K(1)(1270)bar-", None, None, [ampgen.leaf(_RHO), ampgen.leaf("K-")]], ["K(1)(1270)bar-", None, None, [ampgen.leaf(_KST), ampgen.leaf("pi-")]],
     [_KST, None, None, [ampgen.leaf("K-"), ampgen.leaf("pi+")]], [_RHO, None, None, [ampgen.leaf("pi+"), ampgen.leaf("pi-")]],
     [_KST, None, "GSpline.EFF", [ampgen.leaf("K-"), ampgen.leaf("pi+")]]],
]


def check_expanded(i, lang):
    trees = EXPANDED_FILES[i]
    final = ["K-", "pi+", "pi+", "pi-"]
    ast = [["EventType", ["D0"] + final]]
    for name in (_KST, _RHO):
        ast += [["Const", f"{name}::Spline::Min", "0.1"], ["Const", f"{name}::Spline::Max", "1.9"], ["Const", f"{name}::Spline::N", "4"]]
    ast += [["Line", t, ["0", "0.5", "0.1"], ["0", "2.0", "0.2"]] for t in trees]
    want = [x for t in trees if t[0] == "D0" for x in ampgen.expand(t, trees)]
    return [(s_ + ":expanded", d) for s_, d in check_trees(ast, want, final, lang)]


def check_trees(ast, trees, final, lang):
    text = ampgen.render(ast)
    st, res = run_forked(observe, (text, lang))
    if st != "ok":
        return [(f"conversion-exception:{lang}", f"{res}\n{text}")]
    fails = []
    if len(res) != len(trees):
        return [("amplitude-count", f"{len(res)} amplitudes for {len(trees)} complete lines\n{text}")]
    for t, (name, structure, code) in zip(trees, res):
        exp = ampgen.code_structure(t, final)
        where = f"[{lang}] line {ampgen.render_tree(t)} event type {final}"
        if structure is None:
            fails.append((f"to_goofit-exception:{lang}", f"{where}: {code}"))
            continue
        want_perms = [pp["perm"] for pp in exp["per_perm"]]
        if sorted(structure) != sorted(want_perms) or len(set(structure)) != len(structure):
            fails.append(("permutation-set", f"{where}: list_structure {structure}, expected exactly {want_perms}"))
            continue
        got = ampgen.read_amplitude_code(code, lang)
        two_two = ampgen.is_vertex(t[3][0]) and ampgen.is_vertex(t[3][1])
        nsf = len(exp["per_perm"][0]["spinfactors"])
        nls = len(exp["per_perm"][0]["lineshapes"])
        if got["n"] != [exp["n"]]:
            fails.append(("declared-count", f"{where}: declares {got['n']} permutations, expected {exp['n']}\n{code}"))
        if len(got["spinfactors"]) != nsf * exp["n"] or len(got["lineshapes"]) != nls * exp["n"]:
            fails.append(("factor-count", f"{where}: {len(got['spinfactors'])} spin factors / {len(got['lineshapes'])} lineshapes, expected {nsf}x{exp['n']} / {nls}x{exp['n']}\n{code}"))
            continue
        seen = []
        for k in range(exp["n"]):
            sfb = got["spinfactors"][k * nsf:(k + 1) * nsf]
            lsb = got["lineshapes"][k * nls:(k + 1) * nls]
            perms = {p for _n, p in sfb}
            if len(perms) != 1:
                fails.append(("spinfactor-permutation-mixed", f"{where}: block {k} mixes permutations {sfb}"))
                break
            perm = next(iter(perms))
            seen.append(perm)
            ep = next((pp for pp in exp["per_perm"] if pp["perm"] == perm), None)
            if ep is None:
                fails.append(("spinfactor-permutation", f"{where}: spin factors carry {perm}, not one of {want_perms}"))
                break
            if sorted(n for n, _p in sfb) != ep["spinfactors"]:
                fails.append(("spinfactor-kind", f"{where}: spin factors {[n for n, _p in sfb]}, expected {ep['spinfactors']} (structure {exp['key']})"))
                break
            lperm = ampgen.perm_of_masses([m for _k, _n, _L, m in lsb], two_two)
            if lperm != perm:
                fails.append(("lineshape-mass-indices", f"{where}: block {k}: spin factors carry {perm} but the lineshape masses {[m for *_x, m in lsb]} belong to {lperm}"))
                break
            if [(a, b, c) for a, b, c, _m in lsb] != [(a, b, c) for a, b, c, _m in ep["lineshapes"]] or [m for *_x, m in lsb] != [m for *_x, m in ep["lineshapes"]]:
                fails.append(("lineshape", f"{where}: lineshapes {lsb}, expected {ep['lineshapes']}"))
                break
        else:
            if sorted(seen) != sorted(want_perms):
                fails.append(("permutation-blocks", f"{where}: permutation blocks {seen}, expected each of {want_perms} once"))
    return fails


# ---- (a) list_structure, exhaustive over tree shapes / multiplicity patterns / event-type arrangements ---------
PATTERNS = {2: ["aa", "ab"], 3: ["aaa", "aab", "abc"], 4: ["aaaa", "aaab", "aabb", "aabc", "abcd"]}
NAMES = {"a": 211, "b": -321, "c": -211, "d": 321}


def partial_cases():
    """Chains whose leaves are a proper sub-multiset of the event type (a resonance inside a four-body event)."""
    for ev_pat in ("aab", "abc", "aabb", "aabc", "aaab", "abcd", "aaaa"):
        for ev in sorted(set(itertools.permutations(ev_pat))):
            for k in range(2, len(ev_pat)):
                for leaves in sorted(set(itertools.permutations(ev_pat, k))):
                    yield {"leafseq": "".join(leaves), "event": "".join(ev), "shape": 0}


def structure_cases():
    yield from partial_cases()
    for n, pats in PATTERNS.items():
        for pat in pats:
            for leafseq in sorted(set(itertools.permutations(pat))):
                for ev in sorted(set(itertools.permutations(pat))):
                    for shape_i, _t in enumerate(shapes.binary_trees(list(range(n)))):
                        yield {"leafseq": "".join(leafseq), "event": "".join(ev), "shape": shape_i}


def check_structure(case):
    from decaylanguage.modeling.decay import ModelDecay
    from particle import Particle

    P = {k: Particle.from_pdgid(v) for k, v in NAMES.items()}
    res = Particle.from_pdgid(113)
    leafseq, ev = case["leafseq"], case["event"]
    shape = list(shapes.binary_trees(list(range(len(leafseq)))))[case["shape"]]

    def build(t):
        if isinstance(t, list):
            return ModelDecay(res, [build(x) for x in t])
        return ModelDecay(P[leafseq[t]])

    top = ModelDecay(Particle.from_pdgid(421), [build(x) for x in shape]) if isinstance(shape, list) else None
    fs = [P[c] for c in ev]
    got = [tuple(x) for x in top.list_structure(fs)]
    exp = ampgen.bose_permutations(list(leafseq), list(ev))
    fails = []
    if sorted(got) != sorted(exp) or len(set(got)) != len(got):
        fails.append(("permutation-set:list_structure", f"tree shape {shape} over leaves {leafseq}, event type {ev}: list_structure {got}, expected exactly {exp}"))
    # a leaf that is not in the event type must be refused
    if "d" not in ev:
        bad = ModelDecay(Particle.from_pdgid(421), [ModelDecay(P["d"]), ModelDecay(P[leafseq[0]])])
        try:
            bad.list_structure(fs)
            fails.append(("foreign-leaf-accepted", f"list_structure accepted a final state with a particle that is not in the event type {ev}"))
        except RuntimeError:
            pass
    return fails


def exec_case(kind, payload):
    if kind == "structure":
        return check_structure(payload)
    if kind == "expanded":
        isolate.warm(sorted(ampgen.PID))
        return check_expanded(payload["file"], payload["lang"])
    if kind == "file":
        isolate.warm(sorted(ampgen.PID))
        return check_file(payload["ev"], payload["order"], payload["struct"], [tuple(x) for x in payload["ls"]], payload["lang"])
    raise ValueError(kind)


def work_structure(cases):
    fails, outs = [], set()
    for c in cases:
        for s, d in check_structure(c):
            fails.append(("structure", c, s, d, len(c["leafseq"])))
        outs.add(short_hash(c))
    return {"fails": fails, "outcomes": outs, "traces": len(cases)}


def work_expanded(items):
    fails, outs = [], set()
    for i, lang in items:
        for s_, d in check_expanded(i, lang):
            fails.append(("expanded", {"file": i, "lang": lang}, s_, d, 5))
        outs.add(short_hash(["expanded", i, lang]))
    return {"fails": fails, "outcomes": outs, "traces": len(items)}


def work_files(items):
    fails, outs = [], set()
    n = 0
    for ev, order, struct, ls_pairs, lang in items:
        f = check_file(ev, order, struct, ls_pairs, lang)
        n += len(ls_pairs)
        if f:
            # narrow to a single line for the replay
            for tags in ls_pairs:
                f1 = check_file(ev, order, struct, [tags], lang)
                for s, d in f1:
                    fails.append(("file", {"ev": ev, "order": order, "struct": struct, "ls": [list(tags)], "lang": lang}, s, d, 1))
            if not any(True for _ in fails):
                for s, d in f:
                    fails.append(("file", {"ev": ev, "order": order, "struct": struct, "ls": [list(x) for x in ls_pairs], "lang": lang}, s, d, len(ls_pairs)))
        outs.add(short_hash([ev, order, struct, lang]))
    return {"fails": fails, "outcomes": outs, "traces": n}


def run(ctx):
    cases = list(structure_cases())
    ctx.log(f"(a) {len(cases)} (tree shape, leaf pattern, event-type arrangement) cases for list_structure")
    run_tasks(ctx, work_structure, [cases[i:i + 200] for i in range(0, len(cases), 200)])
    ctx.count(states=len(cases), transitions=len(cases))
    ctx.part("a-list_structure", cases=len(cases), complete=True)
    isolate.warm(sorted(ampgen.PID))
    items = []
    nlines = 0
    for ev, structs in STRUCTS.items():
        for struct, t in structs.items():
            nv = len(ampgen.vertexes(t))
            combos = list(itertools.product(LS_TAGS, repeat=nv))
            for order in range(len(EVENT_ORDERS[ev])):
                if not ctx.thorough and order > 0 and (len(struct) + order + ctx.seed) % 2:
                    sel = combos[:1] + combos[5:6]
                else:
                    sel = combos
                for lang in ("cpp", "py"):
                    items.append((ev, order, struct, sel, lang))
                    nlines += len(sel)
    ctx.log(f"(b) {len(items)} option files, {nlines} amplitude lines (spin structures x topologies x lineshape kinds x event-type orders x 2 languages)")
    ctx.rng.shuffle(items)
    run_tasks(ctx, work_files, [[it] for it in items])
    run_tasks(ctx, work_expanded, [[(i, lang)] for i in range(len(EXPANDED_FILES)) for lang in ("cpp", "py")])
    ctx.part("b2-expanded-lines", files=len(EXPANDED_FILES), note="amplitudes arising by substitution of separately given lines: once each, in input order")
    ctx.count(states=nlines, transitions=nlines)
    ctx.part("b-generated-code", files=len(items), amplitude_lines=nlines, structures={ev: list(s) for ev, s in STRUCTS.items()}, lineshape_kinds=4, complete=ctx.thorough)
    ex = with_lineshapes(STRUCTS[2]["A_VP"], ["GSpline.EFF", None])
    ctx.sample({"line": ampgen.render_tree(ex), "event_type": EVENT_ORDERS[2][0], "expected": ampgen.code_structure(ex, EVENT_ORDERS[2][0])})
    ctx.extra["excluded"] = ["mass symbols are compared as written (M_21 is not normalised to M_12): the property asks for the indices of the same permutation",
                             "the spin-structure -> spin-factor table is a frozen copy: its physics is not judged"]
