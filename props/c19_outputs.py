"""C19 — C++ and Python GooFit outputs describe the same, self-contained model (E2, forked; DESIGN.md C19)."""
from __future__ import annotations

import contextlib
import io
import itertools
import os
import re
import subprocess
import sys
import tempfile
import types

from mc import dbe, isolate
from mc.core import pmap, run_forked, short_hash, run_tasks
from props.c18_bose import EVENT_ORDERS, STRUCTS, with_lineshapes
from ref import ampgen, goofit_read

REPO = os.environ.get("VERIF_REPO", "/repo")
SHIPPED = "models/DtoKpipipi_v2.txt"
LS_TAGS = [None, "GSpline.EFF", "kMatrix.pole.1", "FOCUS.Kpi", "kMatrix.prod.0", "FOCUS.I32"]
# written in scrambled order: the generated arrays must be ordered by index, not by position in the file
KM_PARAMS = ([[f"f_scatt{i}", "2", f"0.{i+1}", "0"] for i in (3, 0, 4, 1, 2)]
             + [[f"IS_p{i}_{n}", "2", f"{0.1*i + 0.01*j:.3f}", "0"] for i in (2, 1) for j, n in reversed(list(enumerate(("pipi", "KK", "4pi", "EtaEta", "EtapEta", "mass"))))]
             + [["s0_prod", "2", "-1.0", "0"], ["s0_scatt", "2", "-3.92637", "0"], ["sA", "2", "1.0", "0"], ["sA_0", "2", "-0.15", "0"]])
STRUCT_KEYS = [(0, k) for k in STRUCTS[0]] + [(2, k) for k in STRUCTS[2]] + [(1, k) for k in STRUCTS[1]] + [(3, k) for k in STRUCTS[3]] + [(4, k) for k in STRUCTS[4]]
FLAGS = [("0", "0"), ("2", "2"), ("0", "2"), ("2", "0")]
# flag (free 0 / fixed 2) x error (zero / non-zero) are fully crossed in the last variant
EXTRA_PARAMS = [[], [["D0_radius", "0", "0.0037559", "0.001"]], [["D0_radius", "2", "0.0037559", "0"]],
                [["Free_par", "0", "-1.5", "0.25"], ["Fixed::par", "2", "3", "0.5"], ["D0_radius", "2", "0.004", "0"], ["Free_zero_err", "0", "147.4", "0"]]]
SPLINE_CONST_ORDERS = [["Min", "Max", "N"], ["N", "Min", "Max"], ["Max", "Min", "N"], ["N", "Max", "Min"]]


def gen(c):
    si = c.choose("structure", list(range(len(STRUCT_KEYS))))
    ev, key = STRUCT_KEYS[si]
    t0 = STRUCTS[ev][key]
    nv = len(ampgen.vertexes(t0))
    tags = [c.choose(f"lineshape{i}", LS_TAGS) for i in range(nv)]
    flags = c.choose("coupling_flags", FLAGS)
    n_more = c.choose("more_lines", [0, 1, 2])
    extra = c.choose("extra_params", list(range(len(EXTRA_PARAMS))))
    order = c.choose("event_order", list(range(len(EVENT_ORDERS[ev]))))
    nspline = c.choose("spline_points", [2, 4, 11])
    km_always = c.flag("kmatrix_params_even_if_unused")
    const_order = SPLINE_CONST_ORDERS[c.choose("spline_constant_order", [0, 1, 2, 3])]
    keys = list(STRUCTS[ev])
    lines = [with_lineshapes(t0, tags)]
    for j in range(n_more):
        other = STRUCTS[ev][keys[(keys.index(key) + 3 * (j + 1)) % len(keys)]]
        lines.append(with_lineshapes(other, [LS_TAGS[(j + 1 + i) % 4] for i in range(len(ampgen.vertexes(other)))]))
    ast = [["EventType", ["D0"] + EVENT_ORDERS[ev][order]]]
    splines, km = [], km_always
    for t in lines:
        for v in ampgen.vertexes(t):
            if v[2] == "GSpline.EFF" and v[0] not in splines:
                splines.append(v[0])
            if v[2] and v[2].startswith("kMatrix"):
                km = True
    cvals = {"Min": "0.18412", "Max": "1.9", "N": str(nspline)}
    for name in splines:
        ast += [["Const", f"{name}::Spline::{k}", cvals[k]] for k in const_order]
    for j, t in enumerate(lines):
        fl = flags if j == 0 else FLAGS[(j + 1) % 4]
        ast.append(["Line", t, [fl[0], ["0.5", "1.25", "0.36"][j % 3], "0.1"], [fl[1], ["2.0", "-0.75", "3.1"][j % 3], "0.2"]])
    for name in splines:
        # written in descending order: the array must be ordered by index, not by position in the file
        ast += [["Param", f"{name}::Spline::Gamma::{i}", "2", f"0.{i+1}", "0"] for i in reversed(range(nspline))]
    if km:
        ast += [["Param"] + p for p in KM_PARAMS]
    ast += [["Param"] + p for p in EXTRA_PARAMS[extra]]
    return ast


# ------------------------------------------------------------------------------------------------
def convert(path):
    """Runs in a forked child: all four ways of obtaining the two outputs."""
    from decaylanguage.modeling.ampgen2goofit import ampgen2goofit, ampgen2goofitpy

    out = {}
    if isinstance(path, (list, tuple)):
        # a longer model is converted first in the same process (string-returning mode, both languages): what the
        # second conversion returns must not depend on it
        warm, path = path
        for fn in (ampgen2goofit, ampgen2goofitpy):
            try:
                fn(warm, ret_output=True)
            except Exception:  # noqa: BLE001
                pass
    for lang, fn in (("cpp", ampgen2goofit), ("py", ampgen2goofitpy)):
        try:
            out[lang] = fn(path, ret_output=True)
        except Exception as e:  # noqa: BLE001
            out[lang] = None
            out[lang + "_exc"] = f"{type(e).__name__}: {e!s:.300}"
            continue
        buf = io.StringIO()
        try:
            with contextlib.redirect_stdout(buf):
                r = fn(path)
            out[lang + "_printed"] = buf.getvalue()
            out[lang + "_printed_ret"] = r
        except Exception as e:  # noqa: BLE001
            out[lang + "_printed"] = None
            out[lang + "_exc"] = f"printing variant: {type(e).__name__}: {e!s:.300}"
    return out


def strip_timestamp(t):
    return "\n".join(ln for ln in t.split("\n") if not ln.startswith("Generated on"))


class Recorder:
    def __init__(self):
        self.calls = []

    def make(self, name):
        def f(*a, **k):
            self.calls.append((name, a))
            return (name, a)
        return f


class _NS:
    def __init__(self, rec, prefix, names):
        for n in names:
            setattr(self, n, rec.make(prefix + "." + n) if n[0].isupper() and prefix == "Lineshapes" and n != "FocusMod" else (prefix, n))


def exec_python(text):
    """Execute the generated Python against a recording stand-in of the goofit module.
    Returns (problems, recorder, namespace)."""
    rec = Recorder()
    mod = types.ModuleType("goofit")
    mod.Variable = rec.make("Variable")
    mod.SpinFactor = rec.make("SpinFactor")
    mod.Amplitude = rec.make("Amplitude")

    class DecayInfo4:
        pass

    mod.DecayInfo4 = DecayInfo4
    ls = types.SimpleNamespace(RBW=rec.make("Lineshapes.RBW"), GSpline=rec.make("Lineshapes.GSpline"), kMatrix=rec.make("Lineshapes.kMatrix"),
                               FOCUS=rec.make("Lineshapes.FOCUS"), FocusMod=types.SimpleNamespace(Kpi="Kpi", KEta="KEta", I32="I32"))
    mod.Lineshapes = ls
    mod.FF = types.SimpleNamespace(BL2="BL2")
    from ref.ampgen import SPINFACTORS
    sfnames = {x for v in SPINFACTORS.values() for x in v} | {"FF_12_34_L1", "FF_12_34_L2", "FF_123_4_L1", "FF_123_4_L2", "ONE", "DtoAP1_AtoVP2_VtoP3P4", "DtoV1P1_V1toV2P2_V2toP3P4"}
    mod.SF_4Body = types.SimpleNamespace(**{n: n for n in sfnames})
    for i, j in itertools.permutations("1234", 2):
        setattr(mod, f"M_{i}{j}", f"M_{i}{j}")
        for k in "1234":
            if k not in (i, j):
                setattr(mod, f"M_{i}{j}_{k}", f"M_{i}{j}_{k}")
    problems = []
    try:
        code = compile(text, "<generated goofit python>", "exec")
    except SyntaxError as e:
        return [("python-syntax-error", f"the Python output does not compile: {e}")], rec, {}
    injected = {}
    for _attempt in range(12):
        rec.calls.clear()
        ns = dict(injected)
        old = sys.modules.get("goofit")
        sys.modules["goofit"] = mod
        try:
            exec(code, ns)  # noqa: S102
            break
        except NameError as e:
            name = getattr(e, "name", None) or re.findall(r"'(\w+)'", str(e))[0]
            ctx = "kMatrix" if "Lineshapes.kMatrix" in text and name in ("sA_0", "sA", "s0_prod", "s0_scatt", "f_scatt", "IS_poles") else "python"
            problems.append((f"undeclared:{name}@{ctx}", f"executing the Python output: name {name!r} is used but never declared"))
            injected[name] = ("injected", name)
        except Exception as e:  # noqa: BLE001
            problems.append((f"python-exec:{type(e).__name__}", f"executing the Python output raised {e!r}"))
            break
        finally:
            if old is None:
                sys.modules.pop("goofit", None)
            else:
                sys.modules["goofit"] = old
    return problems, rec, ns


def analyse(ast, out, label):
    fails = []
    for lang in ("cpp", "py"):
        if out.get(lang) is None:
            fails.append((f"conversion-exception:{lang}", f"{label}: {out.get(lang + '_exc')}\n{ampgen.render(ast)}"))
    if fails:
        return fails
    for lang in ("cpp", "py"):
        if out.get(lang + "_printed") is None:
            fails.append((f"conversion-exception:{lang}", f"{label}: {out.get(lang + '_exc')}"))
        elif strip_timestamp(out[lang + "_printed"]) != strip_timestamp(out[lang]) or out.get(lang + "_printed_ret") is not None:
            a, b = strip_timestamp(out[lang + "_printed"]).split("\n"), strip_timestamp(out[lang]).split("\n")
            diff = [x for x in a if x not in b][:3] + ["<->"] + [x for x in b if x not in a][:3]
            fails.append((f"returned-string-differs:{lang}", f"{label}: ret_output=True text differs from what is printed: {diff}"))
    S = {lang: goofit_read.read_output(out[lang], lang) for lang in ("cpp", "py")}
    a, b = S["cpp"], S["py"]
    analyse.last_digest = short_hash([a["event"], a["constants"], a["resonances"], sorted(a["arrays"]),
                                      [(am["spinfactors"], am["lineshapes"], am["fixed"], am["count"]) for am in a["amplitudes"]]])
    for key in ("event", "constants", "resonances", "parameters", "arrays", "masses"):
        if a[key] != b[key]:
            fails.append((f"outputs-differ:{key}", f"{label}: C++ {str(a[key])[:400]}\nPython {str(b[key])[:400]}"))
    if len(a["amplitudes"]) != len(b["amplitudes"]):
        fails.append(("outputs-differ:amplitude-count", f"{label}: {len(a['amplitudes'])} vs {len(b['amplitudes'])}"))
    else:
        for x, y in zip(a["amplitudes"], b["amplitudes"]):
            d = {k: (x[k], y[k]) for k in x if x[k] != y[k] and k not in ("fixed_imag",)}
            if d:
                fails.append((f"outputs-differ:amplitude:{'+'.join(sorted(d))}", f"{label}: amplitude {x['name']}: C++ vs Python {d}"))
                break
        _h, bc = goofit_read.split_blocks(out["cpp"], "cpp")
        _h, bp = goofit_read.split_blocks(out["py"], "py")
        for (i, x), (_j, y) in zip(bc, bp):
            if goofit_read.normalise_lineshape_args(x, "cpp") != goofit_read.normalise_lineshape_args(y, "py"):
                fails.append(("outputs-differ:lineshape-arguments", f"{label}: line {i}: {goofit_read.normalise_lineshape_args(x, 'cpp')} vs {goofit_read.normalise_lineshape_args(y, 'py')}"))
                break
    # against the input
    sem = ampgen.semantics(ast)
    exp_params = [(n, v, None if fixed else e) for n, fixed, v, e in sem["parameters"]]
    for lang in ("cpp", "py"):
        got = [(q, v, e) for _n, q, v, e in S[lang]["parameters"]]
        if got != exp_params:
            fails.append((f"parameters-vs-input:{lang}", f"{label}: parameters in the output {got[:6]}..., in the input {exp_params[:6]}..."))
        if S[lang]["event"] is None or [n for n, _i in S[lang]["event"][1]] != [str_name(n) for n in sem_event(ast)[1:]]:
            pass
        names = [am["name"] for am in S[lang]["amplitudes"]]
        if len(names) != len(sem["amplitudes"]):
            fails.append((f"amplitudes-vs-input:{lang}", f"{label}: {len(names)} amplitudes in the output, {len(sem['amplitudes'])} expected from the input"))
        for am in S[lang]["amplitudes"]:
            if am["real"] == am["imag"]:
                fails.append((f"coefficient-names-equal:{lang}", f"{label}: amplitude {am['name']} uses the name {am['real']!r} for both coefficients"))
                break
        for n, pos, ctx in S[lang]["uses"]:
            if n not in S[lang]["declared"] or S[lang]["declared"][n] > pos:
                c = ctx.split(":")[-1] if ctx.startswith("lineshape") else ctx.split(":")[0]
                fails.append((f"undeclared:{n}@{c}", f"{label} [{lang}]: symbol {n} is used in {ctx} but not declared earlier in the output"))
    # execute the Python output
    problems, rec, ns = exec_python(out["py"])
    for s, d in problems:
        fails.append((s, f"{label}: {d}"))
    if not any(s.startswith(("python-syntax", "python-exec")) for s, _d in problems):
        amps = [c for c in rec.calls if c[0] == "Amplitude"]
        if len(amps) != len(b["amplitudes"]) or [c[1][0] for c in amps] != [am["name"] for am in b["amplitudes"]]:
            fails.append(("python-run:amplitudes", f"{label}: executing the Python output creates amplitudes {[c[1][0] for c in amps]}, the text declares {[am['name'] for am in b['amplitudes']]}"))
        else:
            for c, am in zip(amps, b["amplitudes"]):
                rv, iv = c[1][1], c[1][2]
                for pos, what, n_exp in ((3, "lineshapes", len(am["lineshapes"])), (4, "spin factors", len(am["spinfactors"]))):
                    arg = c[1][pos]
                    if not isinstance(arg, (tuple, list)) or not all(isinstance(x, tuple) and len(x) == 2 and isinstance(x[0], str) for x in arg) or len(arg) != n_exp:
                        fails.append((f"python-run:{what.replace(' ', '-')}-not-a-sequence", f"{label}: Amplitude {c[1][0]} receives {str(arg)[:200]} as its {what}: not a sequence of {n_exp} objects"))
                        break
                if rv[1][0] != am["real"] or iv[1][0] != am["imag"] or c[1][-1] != am["count"] or len(c[1][3]) != len(am["lineshapes"]) or len(c[1][4]) != len(am["spinfactors"]):
                    fails.append(("python-run:amplitude-arguments", f"{label}: executed Amplitude {c[1][0]} differs from the text"))
                    break
        di = ns.get("DK3P_DI")
        if di is None or getattr(di, "amplitudes", None) is not ns.get("amplitudes_list"):
            fails.append(("python-run:amplitudes-not-assigned", f"{label}: DK3P_DI.amplitudes is not the list of amplitudes"))
        pm = getattr(di, "particle_masses", None)
        if pm is None or len(pm) != 5 or not all(isinstance(x, float) for x in pm):
            fails.append(("python-run:particle-masses", f"{label}: particle_masses = {pm}"))
    # de-duplicate
    seen, uniq = set(), []
    for s, d in fails:
        if s not in seen:
            seen.add(s)
            uniq.append((s, d))
    return uniq


def sem_event(ast):
    return next(st[1] for st in ast if st[0] == "EventType")


def str_name(n):
    return n


def check_ast(ast, label="generated", after_long=False):
    fd, path = tempfile.mkstemp(suffix=".opt", prefix="c19_")
    with os.fdopen(fd, "w") as f:
        f.write(ampgen.render(ast))
    try:
        out = run_forked(convert, [os.path.join(REPO, SHIPPED), path] if after_long else path)
    finally:
        os.unlink(path)
    # (the signature of the known finding F9 must stay what KNOWN_FINDINGS.txt lists)
    return [(s_ + ("@after-long-conversion" if after_long and not s_.startswith("undeclared:") else ""), d) for s_, d in analyse(ast, out, label + (" (after a long conversion in the same process)" if after_long else ""))]


def check_shipped():
    path = os.path.join(REPO, SHIPPED)
    out = run_forked(convert, path)
    ast = parse_shipped(path)
    return analyse(ast, out, "shipped model " + SHIPPED)


def parse_shipped(path):
    """Minimal independent reader of the shipped option file into the AST (for the comparison with the input)."""
    ast = []
    for ln in open(path):
        ln = ln.split("#")[0].strip()
        if not ln:
            continue
        tok = ln.split()
        if tok[0] == "EventType":
            ast.append(["EventType", tok[1:]])
        elif len(tok) == 7:
            ast.append(["Line", parse_tree(tok[0]), tok[1:4], tok[4:7]])
        elif len(tok) == 4:
            ast.append(["Param", tok[0], tok[1], tok[2], tok[3]])
        elif len(tok) == 2:
            ast.append(["Const", tok[0], tok[1]])
    return ast


def parse_tree(s):
    m = re.match(r"^([^\[{]+)(?:\[([^\]]*)\])?(?:\{(.*)\})?$", s)
    name, tag, inner = m.groups()
    sp = ls = None
    if tag:
        for part in tag.split(";"):
            if part in ("S", "P", "D"):
                sp = part
            else:
                ls = part
    ds = None
    if inner:
        depth, cut = 0, None
        for i, ch in enumerate(inner):
            if ch in "{[":
                depth += 1
            elif ch in "}]":
                depth -= 1
            elif ch == "," and depth == 0:
                cut = i
                break
        ds = [parse_tree(inner[:cut]), parse_tree(inner[cut + 1:])]
    return [name, sp, ls, ds]


def check_cli(which):
    """Command-line entry point in a fresh interpreter: same text as the function (minus the timestamp)."""
    if which == "small":
        ast = dbe.replay(gen, ())
        fd, path = tempfile.mkstemp(suffix=".opt", prefix="c19cli_")
        with os.fdopen(fd, "w") as f:
            f.write(ampgen.render(ast))
    else:
        path = os.path.join(REPO, SHIPPED)
    fails = []
    try:
        ref = run_forked(convert, path)
        env = dict(os.environ, PYTHONPATH=os.path.join(REPO, "src"), PYTHONHASHSEED="0")
        for lang, gname in (("cpp", "goofit"), ("py", "goofitpy")):
            p = subprocess.run([sys.executable, "-m", "decaylanguage", "-G", gname, path], capture_output=True, text=True, env=env, timeout=900)
            if p.returncode != 0:
                fails.append((f"cli-failed:{lang}", f"python -m decaylanguage -G {gname} exits {p.returncode}: {p.stderr[-300:]}"))
                continue
            a = strip_ansi(strip_timestamp(p.stdout)).split("\n")
            b = strip_ansi(strip_timestamp(ref[lang] or "")).split("\n")
            if canon_lines(a) != canon_lines(b):
                diff = [x for x in a if x not in b][:3] + ["<->"] + [x for x in b if x not in a][:3]
                fails.append((f"cli-differs:{lang}", f"command-line output differs from the function's: {diff}"))
    finally:
        if which == "small":
            os.unlink(path)
    return fails


def strip_ansi(t):
    return re.sub(r"\x1b\[[0-9;]*m", "", t)


def canon_lines(lines):
    """Blocks of mutually independent declarations are compared as multisets (their order follows set iteration)."""
    return sorted(ln.rstrip() for ln in lines)


def exec_case(kind, payload):
    isolate.warm(sorted(ampgen.PID))
    if kind == "choices":
        return check_ast(dbe.replay(gen, tuple(payload["choices"])), f"choices {payload['choices']}", payload.get("after_long", False))
    if kind == "shipped":
        return check_shipped()
    if kind == "cli":
        return check_cli(payload["which"])
    raise ValueError(kind)


def work(items):
    fails, outs = [], set()
    for kind, payload, w in items:
        if kind == "choices":
            f = check_ast(dbe.replay(gen, tuple(payload["choices"])), f"choices {payload['choices']}", payload.get("after_long", False))
        elif kind == "shipped":
            f = check_shipped()
        else:
            f = check_cli(payload["which"])
        for s, d in f:
            fails.append((kind, payload, s, d, w))
        outs.add("F" if f and not all(x[0].startswith("undeclared:sA_0") for x in f) else getattr(analyse, "last_digest", "?"))
    return {"fails": fails, "outcomes": outs, "traces": len(items)}


def run(ctx):
    isolate.warm(sorted(ampgen.PID) + ["K(1)(1400)bar-", "rho(1450)0"])
    bound = 3 if ctx.thorough else 2
    stats = {}
    items = [("choices", {"choices": list(ch)}, nd) for ch, nd, _a in dbe.explore(gen, bound, stats)]
    items += [("choices", {"choices": it[1]["choices"], "after_long": True}, it[2] + 1) for it in list(items) if it[2] <= 1]
    n_dbe = len(items)
    items.append(("shipped", {}, 50))
    items.append(("cli", {"which": "small"}, 60))
    if ctx.thorough:
        items.append(("cli", {"which": "shipped"}, 70))
    ctx.log(f"{n_dbe} option files with <= {bound} deviations + the shipped model + the command-line entry point")
    ctx.sample({"choices": [], "text": ampgen.render(dbe.replay(gen, ()))})
    big = items[n_dbe // 2]
    ctx.sample({"choices": big[1]["choices"], "text": ampgen.render(dbe.replay(gen, tuple(big[1]["choices"])))})
    heavy = items[n_dbe:]
    light = items[:n_dbe]
    ctx.rng.shuffle(light)
    chunks = [[h] for h in heavy] + [light[i:i + 6] for i in range(0, len(light), 6)]
    run_tasks(ctx, work, chunks)
    ctx.count(states=stats["nodes"] + len(heavy), transitions=stats["choices"] + len(heavy))
    ctx.part("option-files", scenarios=n_dbe, deviation_bound=bound, per_dimension_max=stats["per_dimension_max"], shipped_model=True, cli=[h[1] for h in heavy[1:]])
    ctx.extra["assumptions_list"] = ["a recording stand-in replaces the goofit module; its API namespace (Variable, Lineshapes, FF, SF_4Body, SpinFactor, Amplitude, DecayInfo4, M_*) is not judged"]
