"""C20 — conversion output depends only on the input file (E1 over call histories + configurations; DESIGN.md C20).

Alphabet: read(class, file) for the three reader classes and convert(language, file), over a pool of four option
files.  Every history runs in a forked pristine child; the result of its LAST call must equal the result of the same
call alone in a genuinely fresh interpreter (no memo).  Hash seeds: fresh interpreters with PYTHONHASHSEED=0,1,...
until every iteration order of the (<=3-element) sets of strings has been observed.
"""
from __future__ import annotations

import itertools
import json
import os
import subprocess
import sys
import tempfile

from mc import isolate
from mc.bfs import bfs
from mc.core import HarnessError, pmap, short_hash
from ref import ampgen, goofit_read

V1 = "K*(892)bar0{K-,pi+}"
V2 = "rho(770)0{pi+,pi-}"
# A and B both leave K(1)(1270)bar- and rho(770)0 open in a top line and define them DIFFERENTLY by partial lines
FILES = {
    "A": (f"EventType D0 K- pi+ pi+ pi-\nD0[P]{{{V1},{V2}}} 0 0.5 0.1 0 2.0 0.2\nD0{{K(1)(1270)bar-,pi+}} 0 0.3 0.1 0 1.0 0.2\nD0{{{V1},PiPi00{{pi+,pi-}}}} 2 1 0 2 0 0\n"
          f"K(1)(1270)bar-{{{V1},pi-}} 0 0.6 0.1 0 0.4 0.1\nK(1)(1270)bar-[D]{{rho(770)0,K-}} 2 1 0 2 0 0\nrho(770)0{{pi+,pi-}} 2 1 0 2 0 0\n"),
    "B": (f"EventType D0 K- pi+ pi+ pi-\nFastCoherentSum::UseCartesian 0\nD0{{{V1},PiPi10[kMatrix.pole.1]{{pi+,pi-}}}} 0 0.7 0.1 0 1.0 0.2\n"
          f"D0{{K(1460)bar-{{{V1},pi-}},pi+}} 2 1 0 2 0 0\nD0{{K(1)(1270)bar-,pi+}} 0 0.2 0.1 0 0.1 0.1\nK(1)(1270)bar-{{omega(782)0{{pi+,pi-}},K-}} 0 0.7 0.1 0 -0.4 0.1\nf_scatt0 2 0.2 0\nf_scatt1 2 0.3 0\nIS_p1_pipi 2 0.2 0\nIS_p1_KK 2 0.1 0\nsA 2 1 0\nsA_0 2 -0.15 0\n"
          "s0_prod 2 -1 0\ns0_scatt 2 -3 0\nD0_radius 0 0.0037 0.001\n"),
    # same decay structure as A, other couplings, cartesian option on (a "twin": equal trees, different numbers)
    "C": (f"EventType D0 K- pi+ pi+ pi-\nFastCoherentSum::UseCartesian 1\nD0[P]{{{V1},{V2}}} 0 0.25 0.1 0 -1.0 0.2\nD0{{K(1)(1270)bar-,pi+}} 2 0.9 0.1 2 0.3 0.2\nD0{{{V1},PiPi00{{pi+,pi-}}}} 0 0.4 0.1 0 0.6 0.1\n"
          f"K(1)(1270)bar-{{{V1},pi-}} 0 0.1 0.1 0 0.7 0.1\nK(1)(1270)bar-[D]{{rho(770)0,K-}} 0 0.3 0.1 0 0.2 0.1\nrho(770)0{{pi+,pi-}} 2 1 0 2 0 0\n"),
    "D": ("EventType D0 K- pi+ pi+ pi-\n"
          + "".join(f"{r}::Spline::Min 0.18\n{r}::Spline::Max 1.9\n{r}::Spline::N 2\n" for r in ("a(1)(1260)+", "K(1)(1270)bar-", "K(2)*(1430)bar-"))
          + f"D0{{a(1)(1260)+[GSpline.EFF]{{{V2},pi+}},K-}} 0 0.5 0.1 0 2.0 0.2\n"
          + f"D0{{K(1)(1270)bar-[GSpline.EFF]{{{V1},pi-}},pi+}} 0 0.4 0.1 0 1.5 0.2\n"
          + f"D0{{K(2)*(1430)bar-[GSpline.EFF]{{{V1},pi-}},pi+}} 0 0.3 0.1 0 0.5 0.2\n"
          + "".join(f"{r}::Spline::Gamma::{i} 2 0.{i+1} 0\n" for r in ("a(1)(1260)+", "K(1)(1270)bar-", "K(2)*(1430)bar-") for i in (1, 0))),
}
# used by the hash-seed part only (exactly three spin configurations / three spline arrays, so that all 3! iteration
# orders can be enumerated)
SEED_FILES = {
    "S": f"EventType D0 K- pi+ pi+ pi-\nD0[P]{{{V1},{V2}}} 0 0.5 0.1 0 2.0 0.2\nD0{{K(1)(1270)bar-{{{V1},pi-}},pi+}} 0 0.3 0.1 0 1.0 0.2\nD0{{{V1},PiPi00{{pi+,pi-}}}} 2 1 0 2 0 0\n",
}
OPS = ([["read", c, f] for c in ("AmplitudeChain", "GooFitChain", "GooFitPyChain") for f in FILES]
       + [["readtext", c, f] for c in ("AmplitudeChain", "GooFitPyChain") for f in FILES]   # the same reader given the text instead of the file name
       + [["convert", l, f] for l in ("cpp", "py") for f in FILES]
       # the same conversion in print mode (the default, and what the command line does); standard output captured
       + [["print", l, f] for l in ("cpp", "py") for f in ("A", "B")])
_DIR = None


def file_dir():
    global _DIR
    if _DIR is None:
        _DIR = os.environ.get("VERIF_C20_DIR")
        if not _DIR or not os.path.isdir(_DIR):
            _DIR = tempfile.mkdtemp(prefix="c20_")
            os.environ["VERIF_C20_DIR"] = _DIR
        # written once, atomically: the fresh interpreters started in parallel share this directory and must never
        # see a file that another process is in the middle of (re)writing
        for k, t in {**FILES, **SEED_FILES}.items():
            path = os.path.join(_DIR, k + ".opt")
            if os.path.exists(path) and open(path).read() == t:
                continue
            tmp = f"{path}.{os.getpid()}.tmp"
            with open(tmp, "w") as f:
                f.write(t)
            os.replace(tmp, path)
    return _DIR


def sig(line):
    return [int(line.particle.pdgid), line.spinfactor, line.lineshape, repr(complex(line.amp)), bool(line.fix), [sig(d) for d in line.daughters] if line.daughters else None]


def table(df):
    return None if df is None else [[str(i)] + [repr(x) for x in row] for i, row in zip(df.index, df.values.tolist())]


def strip_timestamp(t):
    return "\n".join(ln for ln in t.split("\n") if not ln.startswith("Generated on"))


def canon_text(text, lang):
    """Canonical form of a conversion output: comment header as a multiset of lines, declarations read back into the
    comparable structure (blocks of independent declarations sorted)."""
    s = goofit_read.read_output(text, lang)
    marker = "// Intro" if lang == "cpp" else "#Intro"
    head = text.split(marker)[0]
    s.pop("declared", None)
    s.pop("uses", None)
    return json.dumps({"header": sorted(ln.rstrip() for ln in strip_timestamp(head).split("\n")), "arrays_keys": sorted(s.pop("arrays").items()), **s}, sort_keys=True, default=str)


def do_call(op):
    kind, who, f = op
    path = os.path.join(file_dir(), f + ".opt")
    from decaylanguage.modeling.amplitudechain import AmplitudeChain
    from decaylanguage.modeling.goofit import GooFitChain, GooFitPyChain
    from decaylanguage.modeling.ampgen2goofit import ampgen2goofit, ampgen2goofitpy

    if kind in ("read", "readtext"):
        cls = {"AmplitudeChain": AmplitudeChain, "GooFitChain": GooFitChain, "GooFitPyChain": GooFitPyChain}[who]
        r = cls.read_ampgen(path) if kind == "read" else cls.read_ampgen(text=FILES[f])
        if who == "AmplitudeChain":
            lines, pars, consts, states = r
        else:
            lines, states = r
            pars, consts = cls.pars, cls.consts
        return {"kind": "read", "lines": [sig(ln) for ln in lines], "states": [int(p.pdgid) for p in states], "pars": table(pars), "consts": table(consts)}
    fn = {"cpp": ampgen2goofit, "py": ampgen2goofitpy}[who]
    if kind == "print":
        import contextlib
        import io
        buf = io.StringIO()
        with contextlib.redirect_stdout(buf):
            fn(path)
        text = buf.getvalue()
    else:
        text = fn(path, ret_output=True)
    return {"kind": kind, "canon": canon_text(text, who), "text": strip_timestamp(text)}


def run_history(hist, check_all=False):
    """Executed in a forked child of the pristine parent (bfs isolate=True)."""
    out = None
    err = None
    for op in hist:
        try:
            out = do_call(list(op))
        except Exception as e:  # noqa: BLE001
            err = f"{type(e).__name__}: {e!s:.200}"
            out = None
            break
    fails = []
    if hist:
        last = list(hist[-1])
        ref = reference(last)
        if err is not None:
            fails.append((f"exception-after-history:{last[0]}", f"history {[list(o) for o in hist]} raised {err}"))
        else:
            cmp_got = {k: v for k, v in out.items() if k != "text"}
            cmp_ref = {k: v for k, v in ref.items() if k != "text"}
            if cmp_got != cmp_ref:
                what = [k for k in cmp_got if cmp_got[k] != cmp_ref.get(k)]
                detail = ""
                if "canon" in what:
                    a, b = json.loads(cmp_got["canon"]), json.loads(cmp_ref["canon"])
                    dk = [k for k in a if a[k] != b.get(k)]
                    detail = f" differing parts {dk}: after history {str(a[dk[0]])[:300]} / alone {str(b[dk[0]])[:300]}"
                fails.append((f"depends-on-history:{last[0]}:{'+'.join(what)}", f"history {[list(o) for o in hist]}: the result of the last call differs from the same call alone in a fresh interpreter ({what}){detail}"))
    st = isolate.library_state()
    return {"canon": st, "fails": fails, "enabled": [tuple(o) for o in OPS], "outcome": short_hash(out) if out else "exc"}


# ---- references: the same call alone in a fresh interpreter (no memo) -------------------------------------
_REF = {}
FRESH = r"""
import sys, json, os
sys.path.insert(0, {verif!r}); sys.path.insert(0, os.path.join({repo!r}, "src"))
import warnings; warnings.simplefilter("ignore")
from props import c20_history_independence as m
print("RESULT " + json.dumps(m.do_call({op!r})))
"""


def fresh_call(op, seed="0"):
    env = dict(os.environ, PYTHONHASHSEED=str(seed), VERIF_C20_DIR=file_dir())
    code = FRESH.format(verif=os.path.dirname(os.path.dirname(os.path.abspath(__file__))), repo=os.environ.get("VERIF_REPO", "/repo"), op=list(op))
    p = subprocess.run([sys.executable, "-c", code], capture_output=True, text=True, env=env, timeout=1800)
    for line in p.stdout.splitlines():
        if line.startswith("RESULT "):
            return json.loads(line[7:])
    return {"kind": "exception", "error": p.stderr[-400:]}


def reference(op):
    key = tuple(op)
    if key not in _REF:
        path = os.path.join(file_dir(), "ref_" + "_".join(op) + ".json")
        if os.path.exists(path):
            _REF[key] = json.load(open(path))
        else:
            _REF[key] = fresh_call(op)
    return _REF[key]


def compute_reference(op):
    r = fresh_call(op)
    path = os.path.join(file_dir(), "ref_" + "_".join(op) + ".json")
    with open(path + ".tmp", "w") as f:
        json.dump(r, f)
    os.replace(path + ".tmp", path)
    return op, r


# ---- hash seeds ----------------------------------------------------------------------------------
def seed_run(args):
    op, seed = args
    return seed, fresh_call(op, seed)


def set_order_observed(text, lang):
    """Order in which the set-iterated blocks appear: spin-configuration summary and spline arrays."""
    head = text
    cfg = [ln.split(" :")[0].strip() for ln in head.split("\n") if " : SF_4Body" in ln or (": SF_4Body" in ln)]
    cfg = [c.replace("\x1b[1m", "").replace("\x1b[22m", "").replace("\x1b[0m", "") for c in cfg]
    arr = [ln.split("_SplineArr")[0].split()[-1] for ln in head.split("\n") if "_SplineArr" in ln and ("vector" in ln or "=  [" in ln)]
    return tuple(cfg), tuple(arr)


def check_seeds(ctx):
    max_seeds = 64 if ctx.thorough else 16
    targets = [(["convert", "cpp", "S"], 0), (["convert", "py", "D"], 1)] + ([(["convert", "py", "S"], 0), (["convert", "cpp", "D"], 1)] if ctx.thorough else [])
    for op, which in targets:
        seen_orders = set()
        canon = {}
        texts = {}
        seeds_used = 0
        for batch_start in range(0, max_seeds, 16):
            batch = list(range(batch_start, min(batch_start + 16, max_seeds)))
            for seed, r in pmap(seed_run, [(op, s) for s in batch] + ([(op, 0)] if batch_start == 0 else []), ctx.workers):
                if r.get("kind") != "convert":
                    ctx.fail("seed", {"op": op, "seed": seed}, "exception-under-hash-seed", f"{op} with PYTHONHASHSEED={seed}: {r}", 1)
                    continue
                seeds_used += 1
                canon.setdefault(r["canon"], seed)
                if seed in texts and texts[seed] != r["text"]:
                    ctx.fail("seed", {"op": op, "seed": seed, "twice": True}, "same-seed-text-differs", f"{op}: two fresh runs with PYTHONHASHSEED={seed} give different text", 1)
                texts[seed] = r["text"]
                seen_orders.add(set_order_observed(r["text"], op[1])[which])
            n = len(next(iter(seen_orders))) if seen_orders else 0
            import math
            if len(seen_orders) >= math.factorial(min(n, 3)) and n <= 3:
                break
        if len(canon) > 1:
            s1, s2 = list(canon.values())[:2]
            ctx.fail("seed", {"op": op, "seeds": [s1, s2]}, "depends-on-hash-seed", f"{op}: canonical output differs between PYTHONHASHSEED={s1} and {s2}", 2)
        ctx.count(states=len(seen_orders), transitions=seeds_used, traces=seeds_used)
        ctx.part("hash-seeds:" + "_".join(op), seeds=seeds_used, distinct_set_orders_observed=len(seen_orders), set_size=len(next(iter(seen_orders))) if seen_orders else 0,
                 all_permutations_observed=bool(seen_orders) and len(seen_orders) >= __import__("math").factorial(len(next(iter(seen_orders)))))


def exec_case(kind, payload):
    isolate.warm(sorted(ampgen.PID))
    file_dir()
    if kind == "history":
        from mc.core import run_forked
        hist = tuple(tuple(o) for o in payload["history"])
        return run_forked(run_history, hist)["fails"]
    if kind == "seed":
        op = payload["op"]
        if payload.get("twice"):
            a, b = fresh_call(op, payload["seed"]), fresh_call(op, payload["seed"])
            return [("same-seed-text-differs", "two runs differ")] if a.get("text") != b.get("text") else []
        if "seeds" in payload:
            a, b = fresh_call(op, payload["seeds"][0]), fresh_call(op, payload["seeds"][1])
            return [("depends-on-hash-seed", f"canonical output differs between seeds {payload['seeds']}")] if a.get("canon") != b.get("canon") else []
        r = fresh_call(op, payload["seed"])
        return [("exception-under-hash-seed", str(r))] if r.get("kind") != "convert" else []
    raise ValueError(kind)


def run(ctx):
    import shutil
    d = file_dir()
    try:
        ctx.log(f"computing {len(OPS)} single-call references in fresh interpreters")
        for op, r in pmap(compute_reference, OPS, ctx.workers):
            _REF[tuple(op)] = r
            if r.get("kind") == "exception":
                raise HarnessError(f"reference call {op} failed in a fresh interpreter: {r}")
        isolate.warm(sorted(ampgen.PID))
        depth = 3 if ctx.thorough else 2
        bfs(ctx, "call-histories", run_history, depth, depth, "history", payload_of=lambda h: {"history": [list(o) for o in h]}, chunk=8, isolate=True)
        if not ctx.thorough:
            # the classic shape of a stale cache: a call, a different call, the first call again (all 380 of them)
            aba = [(tuple(a), tuple(b), tuple(a)) for a in OPS for b in OPS if a != b]
            ctx.log(f"{len(aba)} histories of the form (a, b, a)")
            from mc.bfs import _run_chunk
            n = 0
            for res in pmap(_run_chunk, [(run_history, aba[i:i + 4], True) for i in range(0, len(aba), 4)], ctx.workers):
                for h, _canon, fails, _en, outcome in res:
                    n += 1
                    ctx.outcomes.add(outcome)
                    for sig, detail in fails:
                        ctx.fail("history", {"history": [list(o) for o in h]}, sig, detail, weight=3)
            ctx.count(transitions=3 * n, traces=n)
            ctx.part("aba-histories", histories=n, complete=True)
        check_seeds(ctx)
        ctx.sample({"history": [OPS[1], OPS[14]], "files": {k: v[:200] for k, v in FILES.items()}})
        ctx.extra["alphabet"] = [" ".join(o) for o in OPS]
        ctx.extra["bound_completed"] = {"history_length": depth}
        ctx.extra["assumptions_list"] = ["references are computed in genuinely fresh interpreters without the name-lookup memo"]
    finally:
        shutil.rmtree(d, ignore_errors=True)
