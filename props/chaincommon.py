"""Shared helpers for the chain properties (C09, C10, C15): abstract table sets -> .dec AST."""
from __future__ import annotations

from ref import decmodel

MODELS_CYCLE = [("PHSP", None), ("SVS", ["1.0"]), ("HELAMP", ["1.0", "0.0", "w"]), ("VSS", None)]


def ast_of_tables(t, tag="", rename=None, derive=False):
    """t: {name: [daughter lists]} -> AST; every table name gets the suffix `tag` (leaves keep their names).
    rename: optional {abstract name: concrete name} applied first (e.g. to EvtGen spellings / aliases)."""
    rename = rename or {}
    tabs = set(t)

    def nm(x):
        x = rename.get(x, x)
        return x + tag if (x in tabs or any(rename.get(k, k) == x for k in tabs)) else x

    ast = []
    for pi, (name, lines) in enumerate(t.items()):
        out = []
        for li, ds in enumerate(lines):
            # two lines with the same daughters are written identically (same literal, flag, model): a table may
            # legitimately contain the same decay line twice, and each is one entry
            li = lines.index(ds)
            model, params = MODELS_CYCLE[(pi + li) % len(MODELS_CYCLE)]
            out.append([f"0.{pi+1}{li+1}", [nm(d) for d in ds], (pi + li) % 2, model, params])
        if derive and name == "X":
            # the table of X exists only through CopyDecay
            ast += [["CopyDecay", nm(name), nm(name) + "src"], ["Decay", nm(name) + "src", out]]
        elif derive and name == "Y" and all(d not in tabs for ds in lines for d in ds):
            # the table of Y exists only through CDecay (leaves are renamed to self-conjugate names by the caller)
            ast += [["ChargeConj", nm(name), nm(name) + "cc"], ["Decay", nm(name) + "cc", out], ["CDecay", nm(name)]]
        else:
            ast.append(["Decay", nm(name), out])
    return ast


DERIVE_RENAME = {"p": "pi0", "q": "gamma"}


def tables_of_ast(ast):
    return decmodel.semantics(ast)["tables"]
