"""Shared oracle for the .dec properties: compare a parsed DecFileParser with ref.decmodel.semantics(ast)."""
from __future__ import annotations

import traceback

from mc import decobs
from mc.decobs import typed
from ref import decmodel
from decaylanguage.dec.enums import known_decay_models

MODELS = tuple(known_decay_models)


def all_names(ast):
    s = set()
    for st in ast:
        if st[0] == "Decay":
            s.add(st[1])
            for ln in st[2]:
                s.update(ln[1])
    return s


def compare_tables(ast, p, include_cc=True, sem=None, check_print=False, only_mothers=None):
    """Return list of (sig, detail). Compares mothers, every table (all fields, typed), list_decay_modes,
    the build_decay_chains route and number_of_decays with the reference semantics."""
    sem = sem or decmodel.semantics(ast, include_cc)
    fails = []
    mothers = list(p.list_decay_mother_names())
    exp_tables = sem["tables"]
    nd = len(sem["decay_order"])
    if only_mothers is None:
        if mothers[:nd] != sem["decay_order"]:
            fails.append(("mothers-order", f"Decay-block mothers reported {mothers[:nd]}, file states {sem['decay_order']}"))
        if sorted(mothers[nd:]) != sorted(set(exp_tables) - set(sem["decay_order"])):
            fails.append(("derived-tables", f"copied/conjugated tables reported {sorted(mothers[nd:])}, expected {sorted(set(exp_tables) - set(sem['decay_order']))} (copies {sem['copied']}, conjugates {sem['cc_created']})"))
        if p.number_of_decays != len(exp_tables):
            fails.append(("number-of-decays", f"number_of_decays={p.number_of_decays}, expected {len(exp_tables)}"))
    names = all_names(ast)
    for m, exp in exp_tables.items():
        if only_mothers is not None and m not in only_mothers:
            continue
        if m not in mothers:
            if only_mothers is not None:
                fails.append(("missing-table", f"no table for {m}"))
            continue
        got = decobs.table_of(p, m)
        if typed(got) != typed([tuple(x) for x in exp]):
            kind = "table"
            if len(got) != len(exp):
                kind = "table-lines"
            else:
                for g, e in zip(got, exp):
                    for idx, nm in enumerate(("bf", "fs", "photos", "model", "params")):
                        if typed(g[idx]) != typed(e[idx]):
                            kind = "table-" + nm
                            break
                    if kind != "table":
                        break
            src = "conjugated" if m in sem["cc_created"] else "copied" if m in sem["copied"] else "decay"
            fails.append((f"{kind}:{src}", f"table of {m}: got {got}, expected {exp}"))
            continue
        lm = p.list_decay_modes(m)
        if lm != [e[1] for e in exp]:
            fails.append(("list_decay_modes", f"list_decay_modes({m})={lm}, expected {[e[1] for e in exp]}"))
        ct = decobs.chain_table(p, m, names | set(sum((e[1] for e in exp), [])))
        if typed(ct) != typed([(e[0], e[1], e[3], e[4]) for e in exp]):
            fails.append(("chain-route", f"build_decay_chains({m}, all stable)={ct}, expected {[(e[0], e[1], e[3], e[4]) for e in exp]}"))
        if check_print and len({e[0] for e in exp}) == len(exp):
            rows = [r for r in decobs.printed(p, m).splitlines() if r.strip()]
            seen = {}
            for r in rows:
                toks = r.rstrip(";").split()
                seen[float(toks[0])] = "PHOTOS" in toks[1:]
            want = {float(f"{e[0]:.7g}"): e[2] for e in exp}
            if seen != want:
                fails.append(("print-photos", f"print_decay_modes({m}) PHOTOS per row {seen}, expected {want}"))
    return fails


def check_ast(ast, include_cc=True, models=None, check_print=False, text=None):
    """Render + parse + compare. Any exception from the implementation on a well-formed text is a failure."""
    text = text if text is not None else decmodel.render(ast)
    try:
        p = decobs.parse_text(text, include_cc, models)
    except Exception as e:  # noqa: BLE001
        return [(f"parse-exception:{type(e).__name__}", f"parse() raised {type(e).__name__}: {str(e)[:300]} on\n{text[:1500]}")]
    try:
        return compare_tables(ast, p, include_cc, check_print=check_print)
    except Exception as e:  # noqa: BLE001
        return [(f"query-exception:{type(e).__name__}", f"{traceback.format_exc()[-800:]} on\n{text[:1500]}")]


def check_pack(asts, include_cc=True, check_print=False):
    """Parse several name-disjoint scenarios as one file. Returns [(index|None, sig, detail)].
    A failure is attributed by re-running each scenario alone; a failure that only shows in the packed file is
    reported against the pack (index None)."""
    big = [st for a in asts for st in a]
    f = check_ast(big, include_cc, check_print=check_print)
    if not f:
        return []
    out = []
    for i, a in enumerate(asts):
        for sig, d in check_ast(a, include_cc, check_print=check_print):
            out.append((i, sig, d))
    if not out:
        out = [(None, sig, d) for sig, d in f]
    return out
