"""Reference model of AmpGen option files (C17-C20): AST, renderer, cartesian expansion of partial lines,
coupling conversion, Bose permutations, expected spin-factor / lineshape structure of the generated code.

AST = list of statements:
  ["EventType", [names]]
  ["Line", tree, [flag_r, a, da], [flag_i, b, db]]      tree = [name, spin|None, lineshape|None, [tree, tree]|None]
  ["Param", name, flag, value, error]        ["Const", name, value]
  ["Option", "FastCoherentSum::UseCartesian", "1"]   ["Output", '"x.root"']   ["nEvents", "1000"]   ["Raw", text]
Numbers are kept as literals (strings).
"""
from __future__ import annotations

import cmath
import itertools

# hand-written name -> PDG ID table of the vocabulary (independent of the library's fuzzy name lookup)
PID = {
    "D0": 421, "K-": -321, "K+": 321, "pi+": 211, "pi-": -211,
    "K*(892)bar0": -313, "K*(892)0": 313, "rho(770)0": 113, "rho(1450)0": 100113, "omega(782)0": 223, "phi(1020)0": 333,
    "K(1)(1270)bar-": -10323, "K(1)(1270)+": 10323, "K(1)(1400)bar-": -20323, "a(1)(1260)+": 20213, "a(1)(1260)-": -20213,
    "K(2)*(1430)bar-": -325, "K(1460)bar-": -100321,
    "PiPi00": 998101, "PiPi10": 988101, "PiPi20": 978101, "PiPi30": 968101, "KPi00": 998111, "KPi10": 988111, "KPi20": 978111,
}


def render_tree(t):
    n, sp, ls, ds = t
    s = n
    if sp and ls:
        s += f"[{sp};{ls}]"
    elif sp:
        s += f"[{sp}]"
    elif ls:
        s += f"[{ls}]"
    if ds:
        s += "{" + ",".join(render_tree(d) for d in ds) + "}"
    return s


def render_stmt(st):
    k = st[0]
    if k == "EventType":
        return "EventType " + " ".join(st[1])
    if k == "Line":
        return f"{render_tree(st[1])}  {' '.join(st[2])}  {' '.join(st[3])}"
    if k == "Param":
        return f"{st[1]}   {st[2]} {st[3]} {st[4]}"
    if k == "Const":
        return f"{st[1]} {st[2]}"
    if k == "Option":
        return f"{st[1]} {st[2]}"
    if k == "Output":
        return f"Output {st[1]}"
    if k == "nEvents":
        return f"nEvents {st[1]}"
    if k == "Raw":
        return st[1]
    raise ValueError(k)


def render(ast, eol="\n"):
    return eol.join(render_stmt(st) for st in ast) + eol


def leaf(n):
    return [n, None, None, None]


def expand(t, lines):
    """Cartesian expansion: a daughter written without its own decay is replaced by every line given separately
    for that name (file order), recursively; product order = daughters left to right."""
    n, sp, ls, ds = t
    if ds:
        return [[n, sp, ls, list(c)] for c in itertools.product(*[expand(d, lines) for d in ds])]
    alts = [x for lt in lines if lt[0] == n for x in expand(lt, lines)]
    return alts or [t]


def semantics(ast):
    ev = next(st[1] for st in ast if st[0] == "EventType")
    lines = [st for st in ast if st[0] == "Line"]
    trees = [st[1] for st in lines]
    cart = False
    for st in ast:
        if st[0] == "Option" and st[1] == "FastCoherentSum::UseCartesian":
            cart = bool(int(st[2]))
    amps = []
    for st in lines:
        if st[1][0] != ev[0]:
            continue
        a, b = float(st[2][1]), float(st[3][1])
        coupling = complex(a, b) if cart else a * cmath.exp(1j * b)
        for x in expand(st[1], trees):
            amps.append((sig_of_tree(x), coupling))
    return {
        "event_type": [PID[n] for n in ev],
        "amplitudes": amps,
        "parameters": [(st[1], int(st[2]) > 0, float(st[3]), float(st[4])) for st in ast if st[0] == "Param"],
        "constants": [(st[1], float(st[2])) for st in ast if st[0] == "Const"],
        "cartesian": cart,
    }


def sig_of_tree(t):
    n, sp, ls, ds = t
    return (PID[n], sp or None, ls or None, [sig_of_tree(d) for d in ds] if ds else None)


def vocabulary(ast):
    out = set()

    def walk(t):
        out.add(t[0])
        for d in t[3] or []:
            walk(d)

    for st in ast:
        if st[0] == "EventType":
            out.update(st[1])
        elif st[0] == "Line":
            walk(st[1])
    return out


# ---------------------------------------------------------------------------------------------- C18
def leaves_of(t):
    n, _sp, _ls, ds = t
    if not ds:
        return [n]
    return [x for d in ds for x in leaves_of(d)]


def bose_permutations(leaf_names, event_type_final):
    """All one-to-one assignments of the amplitude's final-state particles (in tree order) to positions of identical
    particles in the event type, each once."""
    n = len(leaf_names)
    return [p for p in itertools.permutations(range(len(event_type_final)), n)
            if all(event_type_final[p[i]] == leaf_names[i] for i in range(n))]
