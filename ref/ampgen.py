"""Reference model of AmpGen option files (C17-C20): AST, renderer, cartesian expansion of partial lines,
coupling conversion, Bose permutations, expected spin-factor / lineshape structure of the generated code.

AST = list of statements:
  ["EventType", [names]]
  ["Line", tree, [flag_r, a, da], [flag_i, b, db]]      tree = [name, spin|None, lineshape|None, [tree, tree]|None]
  ["Param", name, flag, value, error]        ["Const", name, value]
  ["Option", "FastCoherentSum::UseCartesian", "1"]   ["Output", '"x.root"']   ["nEvents", "1000"]   ["Raw", text]
Numbers are kept as literals (strings).
"""
from __future__ import annotations

import cmath
import itertools

# hand-written name -> PDG ID table of the vocabulary (independent of the library's fuzzy name lookup)
PID = {
    "D0": 421, "K-": -321, "K+": 321, "pi+": 211, "pi-": -211,
    "K*(892)bar0": -313, "K*(892)0": 313, "rho(770)0": 113, "rho(1450)0": 100113, "omega(782)0": 223, "phi(1020)0": 333,
    "K(1)(1270)bar-": -10323, "K(1)(1270)+": 10323, "K(1)(1400)bar-": -20323, "a(1)(1260)+": 20213, "a(1)(1260)-": -20213,
    "K(2)*(1430)bar-": -325, "K(1460)bar-": -100321,
    "eta": 221, "pi0": 111, "a(0)(980)0": 9000111, "f(0)(980)0": 9010221, "f(0)(500)": 9000221, "a(1)(1260)0": 20113,
    "PiPi00": 998101, "PiPi10": 988101, "PiPi20": 978101, "PiPi30": 968101, "KPi00": 998111, "KPi10": 988111, "KPi20": 978111,
}


def render_tree(t):
    n, sp, ls, ds = t
    s = n
    if sp and ls:
        s += f"[{sp};{ls}]"
    elif sp:
        s += f"[{sp}]"
    elif ls:
        s += f"[{ls}]"
    if ds:
        s += "{" + ",".join(render_tree(d) for d in ds) + "}"
    return s


def render_stmt(st):
    k = st[0]
    if k == "EventType":
        return "EventType " + " ".join(st[1])
    if k == "Line":
        return f"{render_tree(st[1])}  {' '.join(st[2])}  {' '.join(st[3])}"
    if k == "Param":
        return f"{st[1]}   {st[2]} {st[3]} {st[4]}"
    if k == "Const":
        return f"{st[1]} {st[2]}"
    if k == "Option":
        return f"{st[1]} {st[2]}"
    if k == "Output":
        return f"Output {st[1]}"
    if k == "nEvents":
        return f"nEvents {st[1]}"
    if k == "Raw":
        return st[1]
    raise ValueError(k)


def render(ast, eol="\n"):
    return eol.join(render_stmt(st) for st in ast) + eol


def leaf(n):
    return [n, None, None, None]


def expand(t, lines):
    """Cartesian expansion: a daughter written without its own decay is replaced by every line given separately
    for that name (file order), recursively; product order = daughters left to right."""
    n, sp, ls, ds = t
    if ds:
        return [[n, sp, ls, list(c)] for c in itertools.product(*[expand(d, lines) for d in ds])]
    alts = [x for lt in lines if lt[0] == n for x in expand(lt, lines)]
    return alts or [t]


def semantics(ast):
    ev = next(st[1] for st in ast if st[0] == "EventType")
    lines = [st for st in ast if st[0] == "Line"]
    trees = [st[1] for st in lines]
    cart = False
    for st in ast:
        if st[0] == "Option" and st[1] == "FastCoherentSum::UseCartesian":
            cart = bool(int(st[2]))
    amps = []
    for st in lines:
        if st[1][0] != ev[0]:
            continue
        a, b = float(st[2][1]), float(st[3][1])
        coupling = complex(a, b) if cart else a * cmath.exp(1j * b)
        for x in expand(st[1], trees):
            amps.append((sig_of_tree(x), coupling))
    return {
        "event_type": [PID[n] for n in ev],
        "amplitudes": amps,
        "parameters": [(st[1], int(st[2]) > 0, float(st[3]), float(st[4])) for st in ast if st[0] == "Param"],
        "constants": [(st[1], float(st[2])) for st in ast if st[0] == "Const"],
        "cartesian": cart,
    }


def sig_of_tree(t):
    n, sp, ls, ds = t
    return (PID[n], sp or None, ls or None, [sig_of_tree(d) for d in ds] if ds else None)


def vocabulary(ast):
    out = set()

    def walk(t):
        out.add(t[0])
        for d in t[3] or []:
            walk(d)

    for st in ast:
        if st[0] == "EventType":
            out.update(st[1])
        elif st[0] == "Line":
            walk(st[1])
    return out


# ---------------------------------------------------------------------------------------------- C18
def leaves_of(t):
    n, _sp, _ls, ds = t
    if not ds:
        return [n]
    return [x for d in ds for x in leaves_of(d)]


def bose_permutations(leaf_names, event_type_final):
    """All one-to-one assignments of the amplitude's final-state particles (in tree order) to positions of identical
    particles in the event type, each once."""
    n = len(leaf_names)
    return [p for p in itertools.permutations(range(len(event_type_final)), n)
            if all(event_type_final[p[i]] == leaf_names[i] for i in range(n))]


# ------------------------------------------------------------------------------------------------
# spin structure of the vocabulary (own copy; J and the letter used in the spin-structure key)
SPIN = {  # name -> (J, letter)   letter: V vector, A axial, S scalar, T tensor, s pseudoscalar, t pseudotensor
    "D0": (0, "s"), "K-": (0, "s"), "K+": (0, "s"), "pi+": (0, "s"), "pi-": (0, "s"),
    "K*(892)bar0": (1, "V"), "K*(892)0": (1, "V"), "rho(770)0": (1, "V"), "rho(1450)0": (1, "V"), "omega(782)0": (1, "V"), "phi(1020)0": (1, "V"),
    "K(1)(1270)bar-": (1, "A"), "K(1)(1270)+": (1, "A"), "K(1)(1400)bar-": (1, "A"), "a(1)(1260)+": (1, "A"), "a(1)(1260)-": (1, "A"),
    "K(2)*(1430)bar-": (2, "T"), "K(1460)bar-": (0, "s"),
    "eta": (0, "s"), "pi0": (0, "s"), "a(0)(980)0": (0, "S"), "f(0)(980)0": (0, "S"), "f(0)(500)": (0, "S"), "a(1)(1260)0": (1, "A"),
    "PiPi00": (0, "S"), "PiPi10": (0, "S"), "PiPi20": (0, "S"), "PiPi30": (0, "S"), "KPi00": (0, "S"), "KPi10": (0, "S"), "KPi20": (0, "S"),
}
# frozen copy of the table "spin structure -> spin factor(s)" (the definition of "the amplitude's spin factors")
SPINFACTORS = {
    "DtoA1P1_A1toS2P2_S2toP3P4": ["DtoAP1_AtoSP2_StoP3P4"],
    "DtoA1P1_A1toV2P2Dwave_V2toP3P4": ["DtoAP1_AtoVP2Dwave_VtoP3P4"],
    "DtoA1P1_A1toV2P2_V2toP3P4": ["DtoAP1_AtoVP2Dwave_VtoP3P4"],
    "DtoS1S2_S1toP1P2_S2toP3P4": ["ONE"],
    "DtoT1P1_T1toV2P2_V2toP3P4": ["DtoTP1_TtoVP2_VtoP3P4"],
    "DtoV1S2_V1toP1P2_S2toP3P4": ["DtoVS_VtoP1P2_StoP3P4"],
    "DtoV1V2_V1toP1P2_V2toP3P4": ["DtoV1V2_V1toP1P2_V2toP3P4_S"],
    "DtoV1V2_V1toP1P2_V2toP3P4_D": ["DtoV1V2_V1toP1P2_V2toP3P4_D"],
    "DtoV1V2_V1toP1P2_V2toP3P4_P": ["DtoV1V2_V1toP1P2_V2toP3P4_P"],
    "Dtos1P1_s1toS2P2_S2toP3P4": ["DtoPP1_PtoSP2_StoP3P4"],
    "Dtos1P1_s1toV2P2_V2toP3P4": ["DtoPP1_PtoVP2_VtoP3P4"],
}
LS_KIND = {None: "RBW", "": "RBW"}


def ls_kind(tag):
    if not tag:
        return "RBW"
    if tag == "GSpline.EFF":
        return "GSpline"
    if tag.startswith("kMatrix"):
        return "kMatrix"
    if tag.startswith("FOCUS"):
        return "FOCUS"
    raise ValueError(tag)


def orbital_L(t):
    """Orbital angular momentum of a two-body vertex: the tag if written, else the minimal L of the triangle rule."""
    n, sp, _ls, ds = t
    if sp:
        return "SPDF".index(sp)
    S = SPIN[n][0]
    s1, s2 = SPIN[ds[0][0]][0], SPIN[ds[1][0]][0]
    return min(abs(S - s1 - s2), abs(S + s1 - s2), abs(S - s1 + s2))


def is_vertex(t):
    return bool(t[3]) and len(t[3]) == 2


def vertexes(t):
    out = []
    for d in t[3] or []:
        if is_vertex(d):
            out.append(d)
            out += vertexes(d)
    return out


def code_structure(t, event_final):
    """What the generated code of amplitude t must contain (C18): permutations, spin factors, lineshapes."""
    top = t
    d0, d1 = top[3]
    two_two = is_vertex(d0) and is_vertex(d1)
    if two_two:
        a, b = SPIN[d0[0]][1] + "1", SPIN[d1[0]][1] + "2"
        key = f"Dto{a}{b}_{a}toP1P2_{b}toP3P4" + (f"_{top[1]}" if top[1] and top[1] != "S" else "")
    else:
        a = SPIN[d0[0]][1] + "1"
        b = SPIN[d0[3][0][0]][1] + "2"
        wave = f"{d0[1]}wave" if d0[1] and d0[1] != "S" else ""
        key = f"Dto{a}P1_{a}to{b}P2{wave}_{b}toP3P4"
    sfs = list(SPINFACTORS[key])
    L = orbital_L(top)
    if L == 1:
        sfs.append("FF_12_34_L1" if two_two else "FF_123_4_L1")
    elif L == 2:
        sfs.append("FF_12_34_L2" if two_two else "FF_123_4_L2")
    elif L > 2:
        raise ValueError("L>2")
    perms = bose_permutations(leaves_of(t), event_final)
    per_perm = []
    for p in perms:
        if two_two:
            masses = [f"M_{p[0]+1}{p[1]+1}", f"M_{p[2]+1}{p[3]+1}"]
        else:
            masses = [f"M_{p[0]+1}{p[1]+1}_{p[2]+1}", f"M_{p[0]+1}{p[1]+1}"]
        lss = [(ls_kind(v[2]), v[0], orbital_L(v), masses[i]) for i, v in enumerate(vertexes(t))]
        per_perm.append({"perm": tuple(p), "spinfactors": sorted(sfs), "lineshapes": lss})
    return {"key": key, "n": len(perms), "per_perm": per_perm}


# ---- front-ends that read the generated text back --------------------------------------------------
import re  # noqa: E402

_SF_CPP = re.compile(r'new\s+SpinFactor\(\s*"SF"\s*,\s*SF_4Body::(\w+)\s*,\s*(\d)\s*,\s*(\d)\s*,\s*(\d)\s*,\s*(\d)\s*\)')
_SF_PY = re.compile(r'SpinFactor\(\s*"SF"\s*,\s*SF_4Body\.(\w+)\s*,\s*(\d)\s*,\s*(\d)\s*,\s*(\d)\s*,\s*(\d)\s*\)')
_LS_CPP = re.compile(r'new\s+Lineshapes::(\w+)\(\s*"([^"]+)"\s*,(.*?)(M_\d\d(?:_\d)?)\s*,\s*FF::BL2', re.S)
_LS_PY = re.compile(r'Lineshapes\.(\w+)\(\s*"([^"]+)"\s*,(.*?)(M_\d\d(?:_\d)?)\s*,\s*FF\.BL2', re.S)
_N_CPP = re.compile(r"spin_factor_list\.back\(\)\s*,\s*(\d+)\s*\}\s*\)")
_N_PY = re.compile(r"spin_factor_list\[-1\]\s*,\s*(\d+)\s*\)\s*\)")


def read_amplitude_code(text, lang):
    """-> {"spinfactors": [(name, (i,j,k,l))...], "lineshapes": [(kind, name, L, mass)...], "n": [declared counts]}"""
    sf = (_SF_CPP if lang == "cpp" else _SF_PY).findall(text)
    ls = (_LS_CPP if lang == "cpp" else _LS_PY).findall(text)
    n = (_N_CPP if lang == "cpp" else _N_PY).findall(text)
    out_ls = []
    for kind, name, args, mass in ls:
        m = re.search(r",\s*(\d+(?:\.\d+)?),\s*$", args)
        out_ls.append((kind, name, int(float(m.group(1))) if m else None, mass))
    return {"spinfactors": [(s[0], tuple(int(x) for x in s[1:])) for s in sf], "lineshapes": out_ls, "n": [int(x) for x in n]}


def perm_of_masses(masses, two_two):
    """Positions encoded in the mass symbols of one permutation block."""
    if two_two:
        a, b = masses[0][2:], masses[1][2:]
        return (int(a[0]) - 1, int(a[1]) - 1, int(b[0]) - 1, int(b[1]) - 1)
    a = masses[0][2:]
    p = [int(a[0]) - 1, int(a[1]) - 1, int(a[3]) - 1]
    rest = [i for i in range(4) if i not in p]
    return tuple(p + rest)
