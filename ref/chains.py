"""Reference semantics for decay chains: unfolding (C09), path enumeration (C10), class<->dict forms (C11),
flattening (C12), descriptor rendering/reading (C13) and the chain graph (C15). Independent of decaylanguage.

tables: {mother: [(bf, [daughters], photos, model, params), ...]}   (as produced by ref.decmodel.semantics)
chain dict (the library's public format): {mother: [{"bf":..,"fs":[name | chain dict,...],"model":..,"model_params":..}]}
"""
from __future__ import annotations

import collections
import itertools


# ---------------------------------------------------------------------------------------------- C09
def unfold(tables, m, stable=()):
    """Canonical unfolding: (mother, [(bf, [name | unfolding], model, params), ...])."""
    lines = []
    for bf, ds, _ph, model, params in tables[m]:
        fs = [d if (d not in tables or d in stable) else unfold(tables, d, stable) for d in ds]
        lines.append((bf, fs, model, list(params)))
    return (m, lines)


def canon_chain(chain):
    """Canonical form of a library chain dict, comparable with unfold()."""
    assert isinstance(chain, dict) and len(chain) == 1, chain
    (m, modes), = chain.items()
    lines = []
    for d in modes:
        extra = set(d) - {"bf", "fs", "model", "model_params"}
        assert not extra, extra
        mp = d["model_params"]
        mp = [] if mp in ("", None) or mp == [] else list(mp)
        fs = [x if isinstance(x, str) else canon_chain(x) for x in d["fs"]]
        lines.append((d["bf"], fs, d["model"], mp))
    return (m, lines)


def unfolded_size(tables, m, stable=(), memo=None):
    """Number of nodes of the unfolding, by dynamic programming (no unfolding). Raises on cycles."""
    memo = {} if memo is None else memo
    state = {}

    def dp(x):
        if x in memo:
            return memo[x]
        if state.get(x) == 1:
            raise RecursionError("cycle at " + x)
        state[x] = 1
        s = 1
        for _bf, ds, _ph, _m, _p in tables[x]:
            s += 1
            for d in ds:
                s += dp(d) if (d in tables and d not in stable) else 1
        state[x] = 2
        memo[x] = s
        return s

    return dp(m)


# ---------------------------------------------------------------------------------------------- C10
def n_paths(tables, m, memo=None):
    """Number of complete decay paths of m: sum over lines of the product over daughters (big-integer DP)."""
    memo = {} if memo is None else memo

    def count(x, top):
        if x not in tables or (not tables[x] and not top):
            return 1
        if x in memo and not top:
            return memo[x]
        tot = 0
        for _bf, ds, _ph, _m, _p in tables[x]:
            c = 1
            for d in ds:
                c *= count(d, False)
            tot += c
        if not top:
            memo[x] = tot
        return tot

    return count(m, True)


def paths(tables, m, aliases=None):
    """Every way of choosing one line for m and recursively for every daughter that has lines.
    Returns a list of nested structures (display_mother, Counter-able tuple of children), one per path, where a child is
    a leaf name (verbatim) or a nested structure; decaying particles are shown under the name they alias."""
    aliases = aliases or {}

    def options(x):
        if x not in tables or not tables[x]:
            return [x]
        out = []
        disp = aliases.get(x, x)
        for _bf, ds, _ph, _m, _p in tables[x]:
            for combo in itertools.product(*[options(d) for d in ds]):
                out.append(nest(disp, combo))
        return out

    if m not in tables:
        raise KeyError(m)
    if not tables[m]:
        return []
    return options(m)


def nest(mother, children):
    """Canonical nested multiset: children sorted by their canonical repr."""
    return (mother, tuple(sorted(children, key=repr)))


# ---------------------------------------------------------------------------------------------- C13 reader
class DescriptorSyntax:
    """Reader for descriptors rendered with patterns (top, sub) of one of two styles:
    wrap:    sub = OPEN + '{mother}' + SEP + '{daughters}' + CLOSE         e.g. '({mother} -> {daughters})'
    postfix: sub = '{mother}' + ' ' + OPEN + SEP' + '{daughters}' + CLOSE  e.g. '{mother} (=> {daughters})'
    top = '{mother}' + TOPSEP + '{daughters}'.
    Names may contain balanced OPEN/CLOSE characters."""

    def __init__(self, top, sub):
        self.top, self.sub = top, sub
        t = _segments(top)
        s = _segments(sub)
        assert t[0] == "" and t[2] == "", "top pattern must be '{mother}<sep>{daughters}'"
        self.topsep = t[1]
        if s[0]:
            self.style = "wrap"
            self.open, self.close, self.sep = s[0], s[2], s[1]
            assert len(self.open) == 1 and len(self.close) == 1
        else:
            self.style = "postfix"
            assert s[1].startswith(" ") and len(s[2]) == 1
            self.open, self.close = s[1][1], s[2]
            self.sep = s[1][2:]  # text after the open bracket

    def render(self, tree, top=True, order=sorted):
        mother, children = tree
        parts = [c if isinstance(c, str) else self.render(c, False, order) for c in children]
        return (self.top if top else self.sub).format(mother=mother, daughters=" ".join(order(parts)))

    def split0(self, s):
        """Split on single blanks at bracket depth 0."""
        out, depth, cur = [], 0, ""
        for ch in s:
            if ch == self.open:
                depth += 1
            elif ch == self.close:
                depth -= 1
            if ch == " " and depth == 0:
                out.append(cur)
                cur = ""
            else:
                cur += ch
        out.append(cur)
        if depth != 0:
            raise ValueError(f"unbalanced brackets in {s!r}")
        return out

    def find0(self, s, sep):
        """First occurrence of sep at bracket depth 0."""
        depth = 0
        for i, ch in enumerate(s):
            if depth == 0 and s.startswith(sep, i):
                return i
            if ch == self.open:
                depth += 1
            elif ch == self.close:
                depth -= 1
        return -1

    def read(self, s):
        i = self.find0(s, self.topsep)
        if i < 0:
            raise ValueError(f"no top separator in {s!r}")
        return nest(s[:i], self.items(s[i + len(self.topsep):]))

    def items(self, rest):
        toks = self.split0(rest) if rest else []
        out = []
        if self.style == "wrap":
            # a sub-decay is rendered with blanks inside its brackets: split0 keeps it in one token
            for tok in toks:
                inner_sep = -1
                if tok.startswith(self.open) and tok.endswith(self.close):
                    inner = tok[1:-1]
                    inner_sep = self.find0(inner, self.sep)
                if inner_sep >= 0:
                    out.append(nest(inner[:inner_sep], self.items(inner[inner_sep + len(self.sep):])))
                else:
                    out.append(tok)
            return out
        for tok in toks:
            if tok.startswith(self.open + self.sep) and tok.endswith(self.close) and out and isinstance(out[-1], str):
                out[-1] = nest(out[-1], self.items(tok[len(self.open + self.sep):-1]))
            else:
                out.append(tok)
        return out


def _segments(pattern):
    """Literal segments around {mother} and {daughters} (mother first), with '{{' / '}}' unescaped."""
    import string
    lit = []
    fields = []
    cur = ""
    for text, field, _spec, _conv in string.Formatter().parse(pattern):
        cur += text
        if field is not None:
            lit.append(cur)
            cur = ""
            fields.append(field)
    lit.append(cur)
    assert fields == ["mother", "daughters"], fields
    return lit


def tree_of_modes(mother, decays):
    """Nested multiset of a single chain given as {particle: (bf, Counter(daughters), metadata)}; every occurrence of a
    decaying particle is expanded."""
    def rec(x):
        _bf, ds, _md = decays[x]
        ch = []
        for d, n in sorted(ds.items()):
            for _ in range(n):
                ch.append(rec(d) if d in decays else d)
        return nest(x, ch)
    return rec(mother)


# ---------------------------------------------------------------------------------------------- C11 / C12
def chain_dict_of_modes(mother, decays):
    """Expected DecayChain.to_dict(): daughters in sorted order, every occurrence of a decaying particle expanded
    position by position. decays: {particle: (bf, Counter, metadata dict)}"""
    def rec(x):
        bf, ds, md = decays[x]
        fs = []
        for d in sorted(ds.elements()):
            fs.append(rec(d) if d in decays else d)
        dm = {"bf": bf, "fs": fs}
        meta = {"model": "", "model_params": ""}
        meta.update(md)
        if meta["model_params"] is None:
            meta["model_params"] = ""
        dm.update(meta)
        return {x: [dm]}
    return rec(mother)


def flatten(mother, decays, stable=()):
    """Leaves multiset and how often each decay is counted.  decays: {particle: Counter(daughters)}"""
    count = collections.Counter()
    leaves = collections.Counter()

    def walk(x, mult):
        count[x] += mult
        for d, n in decays[x].items():
            if d in decays and d not in stable:
                walk(d, mult * n)
            else:
                leaves[d] += mult * n

    walk(mother, 1)
    return leaves, count


# ---------------------------------------------------------------------------------------------- C15
def graph(chain):
    """Expected graph of a chain dict as a canonical tree:
    (root_cell, [ (port|None, label, node), ... ])  with node = (cells tuple, [ (port, label, node), ... ]);
    child lists are sorted by repr (graph edges are unordered)."""
    (m, modes), = chain.items()

    def node_of(mode):
        cells = tuple(next(iter(p)) if isinstance(p, dict) else p for p in mode["fs"])
        kids = []
        for i, p in enumerate(mode["fs"]):
            if isinstance(p, dict):
                (_k, sub), = p.items()
                for sm in sub:
                    kids.append((i, str(sm["bf"]), node_of(sm)))
        return (cells, sorted(kids, key=repr))

    return (m, sorted(((None, str(md["bf"]), node_of(md)) for md in modes), key=repr))


def graph_counts(g):
    def cnt(node):
        n = 1
        for _p, _l, ch in node[1]:
            n += cnt(ch)
        return n
    return sum(cnt(ch) for _p, _l, ch in g[1])
