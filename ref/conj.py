"""Reference charge conjugation, built from the raw data files of the `particle` package (not from its classes).

cc(name): the EvtGen name whose PDG ID is the negated one; the same name for self-conjugate particles;
'ChargeConj(name)' when no conjugate is known.
"""
from __future__ import annotations

import csv
import os

import particle.data as _pd

_DIR = os.path.dirname(_pd.__file__)


def _rows(fn):
    with open(os.path.join(_DIR, fn), encoding="utf_8") as f:
        yield from csv.DictReader(line for line in f if not line.startswith("#"))


EVT_NAME2ID = {}
EVT_ID2NAME = {}
for _r in _rows("pdgid_to_evtgenname.csv"):
    EVT_NAME2ID[_r["STR"]] = int(_r["PDGID"])
    EVT_ID2NAME[int(_r["PDGID"])] = _r["STR"]


def _latest(prefix):
    c = sorted(f for f in os.listdir(_DIR) if f.startswith(prefix) and f.endswith(".csv"))
    return c[-1]


TABLE = {}  # pdgid -> dict(anti=int, charge3=int, width=float MeV, name=str)
for _fn in (_latest("particle2"), _latest("nuclei2")):
    for _r in _rows(_fn):
        try:
            TABLE[int(_r["ID"])] = {
                "anti": int(_r["Anti"]),
                "charge3": int(_r["Charge"]),
                "width": float(_r["Width"]),
                "mass": float(_r["Mass"]),
                "name": _r["Name"],
            }
        except ValueError:
            pass

# PDG-name <-> EvtGen name, via the ID (particle.converters builds these maps through the ID as well)
PDG_NAME_FILE = None


def base_cc(name: str) -> str:
    if name not in EVT_NAME2ID:
        return f"ChargeConj({name})"
    i = EVT_NAME2ID[name]
    row = TABLE.get(i)
    if row is not None:
        inverts = row["anti"] == 1 or (row["anti"] == 2 and row["charge3"] != 0)
        if not inverts:
            return name  # self-conjugate
    if -i in EVT_ID2NAME:
        return EVT_ID2NAME[-i]
    return f"ChargeConj({name})"


def cc(name: str, table=None) -> str:
    """Conjugate under the ChargeConj statements of a file (read both ways), else the data tables."""
    if table:
        if name in table:
            return table[name]
        for a, b in table.items():
            if b == name:
                return a
    return base_cc(name)


def kind(name: str) -> str:
    c = base_cc(name)
    if c == name:
        return "self"
    if c.startswith("ChargeConj("):
        return "unknown"
    return "pair"


def width_gev(name: str):
    """Reference width in GeV of an EvtGen name (None when unknown to the tables)."""
    i = EVT_NAME2ID.get(name)
    if i is None or i not in TABLE:
        return None
    return TABLE[i]["width"] / 1000.0


# ---- PDG-style names (conversions.csv holds PDGID, PDGNAME, EVTGENNAME per row) -------------------
PDG_NAME2ID = {}
PDG_ID2NAME = {}
with open(os.path.join(_DIR, "conversions.csv"), encoding="utf_8") as _f:
    for _r in csv.DictReader((line for line in _f if not line.startswith("#")), skipinitialspace=True):
        try:
            _i = int(_r["PDGID"])
        except (ValueError, TypeError):
            continue
        PDG_NAME2ID[_r["PDGNAME"].strip()] = _i
        PDG_ID2NAME[_i] = _r["PDGNAME"].strip()


def base_cc_pdg(name: str) -> str:
    """Conjugate of a PDG-style name: the PDG-style name of the negated ID (same name when self-conjugate).
    The conjugation tables are those of the EvtGen naming: a PDG name whose ID has no EvtGen name has no known
    conjugate and is returned wrapped."""
    if name not in PDG_NAME2ID:
        return f"ChargeConj({name})"
    i = PDG_NAME2ID[name]
    if i not in EVT_ID2NAME:
        return f"ChargeConj({name})"
    c = base_cc(EVT_ID2NAME[i])
    if c.startswith("ChargeConj("):
        return f"ChargeConj({name})"
    j = EVT_NAME2ID[c]
    if j not in PDG_ID2NAME:
        return f"ChargeConj({name})"
    return PDG_ID2NAME[j]
