"""Reference model of the .dec statement language: AST (plain lists, JSON-serialisable), renderer, semantics.

AST = list of statements:
  ["Decay", mother, [line, ...]]          line = [bf_literal, [daughters], photos(0/1), model_word, params|None]
  ["Alias", name, target]      ["ChargeConj", a, b]     ["Define", name, literal]
  ["ModelAlias", name, model, params|None]      ["CopyDecay", new, old]      ["CDecay", name]
  ["Particle", name, mass_lit, width_lit|None]  ["Pythia", kind, module, param, value]
  ["JetSetPar", "PARJ(21)", literal]            ["LS", kind, name]           ["BlattWeisskopf", name, literal]
  ["ChangeMass", "ChangeMassMin"|"ChangeMassMax", name, literal]
  ["IncFactor", "IncludeBirthFactor"|"IncludeDecayFactor", name, "yes"|"no"]
  ["SetLineshapePW", m, d1, d2, int_literal]    ["Photos", "yes"|"no"]       ["End"]      ["Raw", text]

The scenario's AST *is* the ground truth: semantics() computes what every query must answer.
"""
from __future__ import annotations

import re

from . import conj

NUM_RE = re.compile(r"^[+-]?(\d+\.?\d*|\.\d+)([eE][+-]?\d+)?$")


def is_number(w: str) -> bool:
    return bool(NUM_RE.match(w))


# ------------------------------------------------------------------------------------------------
def render_line(line, indent="  ", sep=" "):
    bf, ds, ph, model, params = line
    toks = [bf] + list(ds) + (["PHOTOS"] if ph else []) + [model] + (list(params) if params else [])
    return indent + sep.join(toks) + ";"


def render_stmt(st):
    k = st[0]
    if k == "Decay":
        return [f"Decay {st[1]}"] + [render_line(ln) for ln in st[2]] + ["Enddecay"]
    if k == "Alias":
        return [f"Alias {st[1]} {st[2]}"]
    if k == "ChargeConj":
        return [f"ChargeConj {st[1]} {st[2]}"]
    if k == "Define":
        return [f"Define {st[1]} {st[2]}"]
    if k == "ModelAlias":
        return ["ModelAlias " + " ".join([st[1], st[2]] + list(st[3] or [])) + ";"]
    if k == "CopyDecay":
        return [f"CopyDecay {st[1]} {st[2]}"]
    if k == "CDecay":
        return [f"CDecay {st[1]}"]
    if k == "Particle":
        return ["Particle " + " ".join(x for x in st[1:] if x is not None)]
    if k == "Pythia":
        return [f"{st[1]} {st[2]}:{st[3]} = {st[4]}"]
    if k == "JetSetPar":
        return [f"JetSetPar {st[1]}={st[2]}"]
    if k == "LS":
        return [f"{st[1]} {st[2]}"]
    if k == "BlattWeisskopf":
        return [f"BlattWeisskopf {st[1]} {st[2]}"]
    if k == "ChangeMass":
        return [f"{st[1]} {st[2]} {st[3]}"]
    if k == "IncFactor":
        return [f"{st[1]} {st[2]} {st[3]}"]
    if k == "SetLineshapePW":
        return ["SetLineshapePW " + " ".join(st[1:])]
    if k == "Photos":
        return ["yesPhotos" if st[1] == "yes" else "noPhotos"]
    if k == "End":
        return ["End"]
    if k == "Raw":
        return [st[1]]
    raise ValueError(k)


def render(ast) -> str:
    out = []
    for st in ast:
        out += render_stmt(st)
    return "\n".join(out) + "\n"


# ------------------------------------------------------------------------------------------------
def param_value(w, defs):
    if is_number(w):
        return float(w)
    neg = w.startswith("-")
    base = w[1:] if neg else w
    if base in defs:
        return -defs[base] if neg else defs[base]
    return w


def semantics(ast, include_cc=True):
    """Everything the parser must report for this AST (see the property statements C01, C03, C05, C07, C08)."""
    defs, aliases, ccs, copies, maliases = {}, {}, {}, {}, {}
    cdecays, particles, lspw, photos_flags = [], {}, [], []
    pythia, jetset = {}, {}
    ls_settings, ls_error = {}, False
    blocks = []
    for st in ast:
        k = st[0]
        if k == "Define":
            defs[st[1]] = float(st[2])
        elif k == "Alias":
            aliases[st[1]] = st[2]
        elif k == "ChargeConj":
            ccs[st[1]] = st[2]
        elif k == "CopyDecay":
            copies[st[1]] = st[2]
        elif k == "ModelAlias":
            maliases[st[1]] = [st[2]] + list(st[3] or [])
        elif k == "CDecay":
            cdecays.append(st[1])
        elif k == "Decay":
            blocks.append(st)
        elif k == "Particle":
            particles[st[1]] = (st[2], st[3])
        elif k == "Pythia":
            pythia.setdefault(st[1], {})[f"{st[2]}:{st[3]}"] = float(st[4]) if is_number(st[4]) else st[4]
        elif k == "JetSetPar":
            m = re.match(r"^([a-zA-Z]+)\((\d+)\)$", st[1])
            lit = st[2]
            try:
                v = int(lit)
            except ValueError:
                v = float(lit)
            jetset.setdefault(m.group(1), {})[int(m.group(2))] = v
        elif k in ("LS", "BlattWeisskopf", "ChangeMass", "IncFactor"):
            if k == "LS":
                name, key, val = st[2], "lineshape", st[1]
            elif k == "BlattWeisskopf":
                name, key, val = st[1], "BlattWeisskopf", float(st[2])
            elif k == "ChangeMass":
                name, key, val = st[2], st[1], float(st[3])
            else:
                name, key, val = st[2], st[1], st[3] == "yes"
            if key in ls_settings.setdefault(name, {}):
                ls_error = True
            ls_settings[name][key] = val
        elif k == "SetLineshapePW":
            lspw.append(([st[1], st[2], st[3]], int(st[4])))
        elif k == "Photos":
            photos_flags.append(st[1])

    def resolve(line):
        bf, ds, ph, model, params = line
        if model in maliases:
            ma = maliases[model]
            model, params = ma[0], ma[1:]
        return (float(bf), list(ds), bool(ph), model, [param_value(w, defs) for w in (params or [])])

    tables = {}
    decay_order = []
    for st in blocks:
        if st[1] in tables:
            continue  # first block wins
        decay_order.append(st[1])
        tables[st[1]] = [resolve(ln) for ln in st[2]]
    derived = {}
    for new, old in copies.items():
        if old in tables and old in decay_order and new not in tables:
            derived[new] = ("copy", old)
    for new, (_k, old) in derived.items():
        tables[new] = [(bf, list(ds), ph, m, list(ps)) for bf, ds, ph, m, ps in tables[old]]
    cc_created = {}
    if include_cc:
        snapshot = dict(tables)
        for x in sorted(set(cdecays)):
            if x in snapshot:
                continue  # Decay (or copy) takes precedence
            src = conj.cc(x, ccs)
            if src in snapshot and src != x:
                cc_created[x] = src
        for x, src in cc_created.items():
            tables[x] = [(bf, [conj.cc(d, ccs) for d in ds], ph, m, list(ps)) for bf, ds, ph, m, ps in snapshot[src]]

    part_out = {}
    for name, (mass, width) in particles.items():
        if width is not None:
            w = float(width)
        else:
            w = conj.width_gev(aliases.get(name, name))
        part_out[name] = {"mass": float(mass), "width": w}

    return {
        "decay_order": decay_order,
        "tables": tables,
        "copied": {n: o for n, (_k, o) in derived.items()},
        "cc_created": cc_created,
        "definitions": defs,
        "aliases": aliases,
        "charge_conjugates": ccs,
        "decays2copy": copies,
        "cdecays": sorted(cdecays),
        "model_aliases": maliases,
        "particles": part_out,
        "pythia": pythia,
        "jetset": jetset,
        "lineshape": None if ls_error else ls_settings,
        "lineshapePW": lspw,
        "photos": (photos_flags[-1] if photos_flags else "no"),
    }


def expand_uses(ast):
    """Metamorphic partner for C05: every use of a Define'd name / ModelAlias replaced by its expansion, on the AST
    (last definition wins); the Define / ModelAlias statements themselves are kept (they define nothing that is used)."""
    defs, mal = {}, {}
    for st in ast:
        if st[0] == "Define":
            defs[st[1]] = st[2]
        elif st[0] == "ModelAlias":
            mal[st[1]] = (st[2], list(st[3] or []))

    def neg(lit):
        return lit[1:] if lit.startswith("-") else ("-" + lit[1:] if lit.startswith("+") else "-" + lit)

    def pw(w):
        if is_number(w):
            return w
        n = w.startswith("-")
        b = w[1:] if n else w
        if b in defs:
            return neg(defs[b]) if n else defs[b]
        return w

    out = []
    for st in ast:
        if st[0] == "Decay":
            lines = []
            for bf, ds, ph, model, params in st[2]:
                if model in mal:
                    model, params = mal[model]
                ps = [pw(w) for w in (params or [])]
                lines.append([bf, ds, ph, model, ps or None])
            out.append(["Decay", st[1], lines])
        else:
            out.append(st)
    return out
