"""Reference model for C14: the descriptor format in force is a stack discipline."""
DEFAULT = ("{mother} -> {daughters}", "({mother} -> {daughters})")


class FormatStack:
    def __init__(self):
        self.current = DEFAULT
        self.stack = []  # saved formats, innermost last: (object index, format to restore)

    def enter(self, obj_index, fmt):
        self.stack.append((obj_index, self.current))
        self.current = fmt

    def leave(self):
        obj_index, fmt = self.stack.pop()
        self.current = fmt
        return obj_index

    def set(self, fmt):
        self.current = fmt

    def render(self, chain):
        """chain = (mother, [daughter | chain, ...]); daughters sorted by their rendered text is NOT assumed:
        the caller passes a chain whose order is insensitive (see props/c14)."""
        return _render(chain, self.current, True)


def _render(chain, fmt, top):
    mother, ds = chain
    parts = [d if isinstance(d, str) else _render(d, fmt, False) for d in ds]
    return (fmt[0] if top else fmt[1]).format(mother=mother, daughters=" ".join(parts))
