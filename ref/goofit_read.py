"""Front-ends that read generated GooFit C++ / Python text back into one comparable structure (C19, C20)."""
from __future__ import annotations

import re

from .ampgen import read_amplitude_code

API_WORDS = {"Variable", "Lineshapes", "FF", "BL2", "SF_4Body", "SpinFactor", "Amplitude", "DecayInfo4", "mkvar", "DK3P_DI",
             "new", "true", "false", "True", "False", "RBW", "GSpline", "kMatrix", "FOCUS", "Mod", "FocusMod", "spline_t",
             "Kpi", "KEta", "I32", "std", "vector", "Lineshape", "fptype", "constexpr"}
IDENT = re.compile(r"[A-Za-z_]\w*")


def _num(s):
    return float(s)


def split_blocks(text, lang):
    marker = r"^\s*// Line (\d+)\s*$" if lang == "cpp" else r"^# Line (\d+)\s*$"
    parts = re.split(marker, text, flags=re.M)
    head = parts[0]
    blocks = []
    for i in range(1, len(parts), 2):
        blocks.append((int(parts[i]), parts[i + 1]))
    return head, blocks


def _positions(text, pattern, group=1):
    return {m.group(group): m.start() for m in re.finditer(pattern, text, flags=re.M)}


def read_output(text, lang):
    """-> dict(event, masses, constants, resonances, parameters, arrays, amplitudes, declared (name->offset), uses [(name, offset, context)])"""
    head, blocks = split_blocks(text, lang)
    out = {}
    if lang == "cpp":
        ev = re.search(r"//\s*Event type:\s*(\S+)\s*->\s+(.*)", head)
        consts = re.findall(r"constexpr\s+fptype\s+(\w+)\s*\{\s*([^\s}]+)\s*\}\s*;", head)
        variables = re.findall(r"^\s*Variable\s+(\w+)\s*\{\s*(\"[^\"]*\")\s*,\s*([^\s,}]+)\s*(?:,\s*([^\s,}]+)\s*)?\}\s*;", head, flags=re.M)
        arrays = re.findall(r"std::vector<Variable>\s+(\w+)\s*\{\{\s*(.*?)\s*\}\}\s*;", head, flags=re.S)
        masses = re.search(r"DK3P_DI\.particle_masses\s*=\s*\{(.*?)\}\s*;", head)
        declared = {}
        for pat in (r"constexpr\s+fptype\s+(\w+)\s*\{", r"^\s*Variable\s+(\w+)\s*\{", r"std::vector<Variable>\s+(\w+)\s*\{\{"):
            for k, v in _positions(text, pat).items():
                declared.setdefault(k, v)
    else:
        ev = re.search(r"#\s*Event type:\s*(\S+)\s*->\s+(.*)", head)
        consts = re.findall(r"^([A-Z][A-Z_0-9]*)\s*=\s*([0-9.eE+-]+)\s*$", head, flags=re.M)
        variables = re.findall(r"^(\w+)\s*=\s*Variable\(\s*(\"[^\"]*\")\s*,\s*([^\s,)]+)\s*(?:,\s*([^\s,)]+)\s*)?\)\s*$", head, flags=re.M)
        arrays = re.findall(r"^(\w+)\s*=\s*\[\s*(.*?)\]", head, flags=re.S | re.M)
        masses = re.search(r"DK3P_DI\.particle_masses\s*=\s*\((.*?)\)", head)
        declared = {}
        for k, v in _positions(text, r"^(\w+)\s*=\s").items():
            declared.setdefault(k, v)
    arrays = [(n, body) for n, body in arrays if n not in ("line_factor_list", "spin_factor_list", "amplitudes_list")]
    res = [(n, q, v) for n, q, v, _e in variables]
    pars = variables
    # a resonance variable is "name_M"/"name_W" with the quoted name equal to the symbol; parameters have free quoted names
    res_syms = {r[0] for r in res if r[1].strip('"') == r[0] and r[0][-2:] in ("_M", "_W")}
    out["event"] = (ev.group(1), re.findall(r"(\S+)\s*\((\d)\)", ev.group(2))) if ev else None
    out["constants"] = sorted((n, _num(v)) for n, v in consts)
    out["resonances"] = sorted((n, q, _num(v)) for n, q, v in res if n in res_syms)
    plist = []
    for n, q, v, e in pars:
        if n in res_syms:
            continue
        plist.append((n, q.strip('"'), _num(v), _num(e) if e else None))
    out["parameters"] = plist
    out["arrays"] = {n: [x.strip() for x in body.replace("\n", " ").split(",") if x.strip()] for n, body in arrays}
    out["masses"] = [x.strip() for x in masses.group(1).split(",")] if masses else None
    amps = []
    uses = []
    head_len = len(head)
    # uses in the head: array elements and the mass list
    for n, body in arrays:
        pos = text.find(body)
        for m in IDENT.finditer(body):
            uses.append((m.group(0), pos + m.start(), "array:" + n))
    if masses:
        for m in IDENT.finditer(masses.group(1)):
            uses.append((m.group(0), masses.start(1) + m.start(), "particle_masses"))
    offset = head_len
    for idx, body in blocks:
        bpos = text.find(body, offset)
        offset = bpos
        code = read_amplitude_code(body, lang)
        if lang == "cpp":
            am = re.search(r'new\s+Amplitude\s*\{\s*"([^"]+)"\s*,\s*mkvar\(\s*"([^"]+)"\s*,\s*(\w+)\s*,\s*([^,\s]+)\s*,\s*([^)\s]+)\s*\)\s*,\s*mkvar\(\s*"([^"]+)"\s*,\s*(\w+)\s*,\s*([^,\s]+)\s*,\s*([^)\s]+)\s*\)\s*,.*?(\d+)\s*\}\s*\)\s*;', body, re.S)
            if am:
                name, rn, rfix, rv, re_, inn, ifix, iv, ie, n = am.groups()
                fixed = rfix == "true"
                amps.append({"index": idx, "name": name, "real": rn, "imag": inn, "rval": _num(rv), "ival": _num(iv),
                             "fixed": fixed, "fixed_imag": ifix == "true", "rerr": None if fixed else _num(re_), "ierr": None if fixed else _num(ie),
                             "count": int(n), **{k: v for k, v in code.items() if k != "n"}})
            ls_iter = re.finditer(r"new Lineshapes::(\w+)\((.*?)\)(?=,\n|\n)", body, re.S)
        else:
            am = re.search(r'Amplitude\(\s*"([^"]+)"\s*,\s*Variable\(\s*"([^"]+)"\s*,\s*([^,)\s]+)\s*(?:,\s*([^,\s]+)\s*,\s*0\.\s*,\s*1000\.\s*)?\)\s*,\s*Variable\(\s*"([^"]+)"\s*,\s*([^,)\s]+)\s*(?:,\s*([^,\s]+)\s*,\s*0\.\s*,\s*1000\.\s*)?\)\s*,.*?(\d+)\s*\)\s*\)', body, re.S)
            if am:
                name, rn, rv, re_, inn, iv, ie, n = am.groups()
                fixed = re_ is None
                amps.append({"index": idx, "name": name, "real": rn, "imag": inn, "rval": _num(rv), "ival": _num(iv),
                             "fixed": fixed, "fixed_imag": ie is None, "rerr": None if fixed else _num(re_), "ierr": None if ie is None else _num(ie),
                             "count": int(n), **{k: v for k, v in code.items() if k != "n"}})
            ls_iter = re.finditer(r"Lineshapes\.(\w+)\((.*?)\)(?=,\n|\)\)\n)", body, re.S)
        for m in ls_iter:
            args = re.sub(r'"[^"]*"', "", m.group(2))
            for im in IDENT.finditer(args):
                w = im.group(0)
                if w in API_WORDS or re.fullmatch(r"M_\d\d(_\d)?", w) or re.fullmatch(r"e\d*", w):
                    continue
                uses.append((w, bpos + m.start(2) + im.start(), "lineshape:" + m.group(1)))
    out["amplitudes"] = amps
    out["declared"] = declared
    out["uses"] = uses
    return out


def normalise_lineshape_args(body, lang):
    """Argument text of every lineshape of one amplitude block, with the language-specific spellings unified."""
    if lang == "cpp":
        ls = re.findall(r'new Lineshapes::(\w+)\("([^"]+)", (.*?)FF::BL2(.*?)\)(?=,\n|\n)', body, re.S)
    else:
        ls = re.findall(r'Lineshapes\.(\w+)\("([^"]+)", (.*?)FF\.BL2(.*?)\)(?=,\n|\)\)\n)', body, re.S)

    def norm(s):
        s = re.sub(r"\s+", " ", s)
        s = s.replace("Lineshapes::FOCUS::Mod::", "FocusMod.").replace("Lineshapes.FocusMod.", "FocusMod.")
        s = s.replace("true", "True").replace("false", "False").replace("Lineshapes::spline_t", "")
        s = re.sub(r"\b(\d+)\.0\b", r"\1", s)
        return s.strip(" ,")

    return [(k, n, norm(a), norm(b)) for k, n, a, b in ls]
