"""Reference for print_decay_modes (C16): expected rows of a table under the print options."""
from __future__ import annotations

import math
from fractions import Fraction


def expected_rows(table, print_model=True, display_photos_keyword=True, ascending=False, normalize=False, scale=None):
    """table: [(bf, fs, photos, model, params)] in file order -> [(expected value as Fraction, [tokens after the number])]
    in printing order (by bf in the requested direction, file order among equal values)."""
    idx = sorted(range(len(table)), key=lambda i: (table[i][0] if ascending else -table[i][0]))  # stable
    if normalize:
        norm = sum(Fraction(t[0]) for t in table)
    elif scale is not None:
        norm = max(Fraction(t[0]) for t in table) / Fraction(scale)
    else:
        norm = Fraction(1)
    rows = []
    for i in idx:
        bf, fs, ph, model, params = table[i]
        toks = list(fs)
        if print_model:
            if ph and display_photos_keyword:
                toks.append("PHOTOS")
            toks.append(model)
            toks += [str(x) for x in params]
        rows.append((Fraction(bf) / norm, toks))
    return rows


def close_7_digits(token, expected):
    """token printed with 7 significant digits: |token - expected| <= half a unit of the 7th digit (+ float slack)."""
    v = float(token)
    e = float(expected)
    if e == 0:
        return v == 0
    mag = math.floor(math.log10(abs(e)))
    return abs(v - e) <= 0.5 * 10 ** (mag - 6) * (1 + 1e-6) + abs(e) * 1e-12
