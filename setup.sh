#!/bin/bash
# Offline set-up: nothing to build (pure Python); verifies the tool chain and runs the reference-model self-test.
set -e
cd "$(dirname "$0")"
/venv/bin/python -c "import decaylanguage, lark, particle, graphviz, pandas; print('decaylanguage', decaylanguage.__version__, 'particle', particle.__version__, 'lark', lark.__version__)"
command -v dot >/dev/null && dot -V
mkdir -p evidence replays
/venv/bin/python tools/selftest.py
echo setup ok
