#!/bin/bash
# tools/benign_agents_all.sh [jobs] — re-runs every behaviour-preserving change of benign/ against the checks recorded in
# its meta.json (quick tier): all must stay silent. Writes benign/RESULTS.md.
cd "$(dirname "$0")/.."
jobs=${1:-6}
python3 - <<'PY' > /tmp/benign_all.list
import glob, json, os, re
for d in sorted(glob.glob("/verif/benign/*/meta.json")):
    m = json.load(open(d)); name = os.path.basename(os.path.dirname(d))
    print(name, ",".join(re.findall(r"(C\d\d):", m["checks_quick_tier"])))
PY
one() { name=$1; checks=$2
  r=$(timeout 3000 tools/mutant.sh benign/$name/patch.diff $checks 2>&1 | grep -E '^(DETECTED|MISSED|ERROR|PATCH)' | awk '{print $1":"$2}' | tr '\n' ' ')
  echo "$name $checks $r"; }
export -f one
xargs -P $jobs -L 1 bash -c 'one $0 $1' < /tmp/benign_all.list | sort > /tmp/benign_all.out
{ echo "# Re-run of every behaviour-preserving change against the checks anchored in the files it touches (quick tier; MISSED = silent, as required)"; echo; echo "| change | checks | result |"; echo "|---|---|---|";
  awk '{n=$1; c=$2; $1="";$2=""; print "| " n " | " c " |" $0 " |"}' /tmp/benign_all.out; } > benign/RESULTS.md
echo "alarms: $(grep -c 'DETECTED\|ERROR\|PATCH' /tmp/benign_all.out) of $(wc -l < /tmp/benign_all.out) changes"
grep 'DETECTED\|ERROR\|PATCH' /tmp/benign_all.out
