#!/bin/bash
# behaviour-preserving patches: every listed check must stay silent (exit 0)
cd "$(dirname "$0")/.."
out=mutants/BENIGN.md
echo "# Behaviour-preserving patches (representation details the properties leave open): no check may raise an alarm" > $out
echo >> $out; echo '| patch | checks run | result |' >> $out; echo '|---|---|---|' >> $out
while read m ps; do
  r=$(timeout 3000 tools/mutant.sh mutants/$m.diff $ps 2>&1 | grep -E '^(DETECTED|MISSED|ERROR|PATCH)' | awk '{print $1":"$2}' | tr '\n' ' ')
  ok=$(echo "$r" | grep -q 'DETECTED\|ERROR\|PATCH' && echo "FALSE ALARM" || echo "silent (as required)")
  echo "| $m | $ps | $ok: $r |" >> $out; echo "$m: $ok $r"
done <<LIST
benign_c19_cpp_whitespace C19,C20,C18
benign_c19_py_whitespace C19,C20
benign_c18_spinfactor_layout C18,C19
benign_c20_resonances_sorted C20,C19
benign_c01_params_empty_list C01,C05,C08,C09,C16
benign_c06_other_exception_class C06,C05
benign_c15_colours C15
benign_c16_column_padding C16,C08
benign_c07_warning_texts C07,C08
benign_c11_to_dict_key_order C11,C13,C15
benign_c03_warning_and_order C03,C08
LIST
