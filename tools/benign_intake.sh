#!/bin/bash
# tools/benign_intake.sh <PROP> <A|B|C>  — confirm a sub-agent's behaviour-preserving change (scratch worktree /tmp/wb_<PROP>)
# and run every check whose property is anchored in the files it touches; files it under benign/<PROP>_<X>/
set -u
prop=$1; x=$2
wt=/tmp/wb_$prop; out=$wt/_out
cd /verif
[ -f $out/$x.patch ] || { echo "no $out/$x.patch"; exit 3; }
git -C $wt checkout -q -- src
git -C $wt apply --whitespace=nowarn $out/$x.patch || { echo "PATCH DOES NOT APPLY"; exit 3; }
demo_rc=$( (cd $wt && PYTHONPATH=$wt/src timeout 600 /venv/bin/python _out/${x}_demo.py >/tmp/benign_demo_$prop.log 2>&1); echo $?)
suite=$(cd $wt && PYTHONPATH=$wt/src /venv/bin/python -m pytest -q -p no:cacheprovider --timeout=900 --deselect tests/dec/test_dec.py::test_particle_property_definitions --deselect tests/test_convert.py::test_full_convert 2>&1 | tail -1)
files=$(grep '^+++ b/' $out/$x.patch | sed 's#^+++ b/##')
checks="$prop"
for f in $files; do
  case $f in
    src/decaylanguage/dec/*|src/decaylanguage/data/decfile.lark) checks="$checks C01 C02 C03 C05 C06 C07 C08 C09 C10 C16";;
    src/decaylanguage/decay/viewer.py) checks="$checks C15";;
    src/decaylanguage/decay/*) checks="$checks C04 C09 C10 C11 C12 C13 C14 C15";;
    src/decaylanguage/utils/*) checks="$checks C03 C04 C13 C14 C17 C20";;
    src/decaylanguage/modeling/*|src/decaylanguage/data/ampgen.lark) checks="$checks C17 C18 C19 C20";;
  esac
done
checks=$(echo $checks | tr ' ' '\n' | sort -u | tr '\n' ' ')
results=""
for p in $checks; do
  o=$(VERIF_REPO=$wt VERIF_EVIDENCE_DIR=/tmp/benign_ev_$prop VERIF_REPLAY_DIR=/tmp/benign_rp_$prop timeout 1500 ./check $p --tier quick 2>&1); rc=$?
  if [ $rc -eq 0 ]; then results="$results $p:silent"; else results="$results $p:ALARM(rc=$rc)"; mkdir -p /tmp/benign_alarm; echo "$o" | tail -40 > /tmp/benign_alarm/${prop}_${x}_$p.log; fi
done
git -C $wt checkout -q -- src; rm -rf /tmp/benign_ev_$prop /tmp/benign_rp_$prop
echo "$prop/$x: demo rc=$demo_rc; suite: $suite; checks:$results"
d=benign/${prop}_$x; mkdir -p $d
cp $out/$x.patch $d/patch.diff; cp $out/${x}_demo.py $d/demo.py; cp $out/${x}_notes.txt $d/notes.txt 2>/dev/null
python3 - "$prop" "$x" "$demo_rc" "$suite" "$results" <<'PY'
import json,sys,os
prop,x,rc,suite,results=sys.argv[1:6]
d=f"/verif/benign/{prop}_{x}"
notes=open(d+"/notes.txt").read() if os.path.exists(d+"/notes.txt") else ""
json.dump({"property":prop,"origin":"independent sub-agent given only the property text and a scratch worktree; asked for a behaviour-preserving change",
 "why_property_still_holds":notes.strip(),"demo_exit_with_change":int(rc),"suite_with_change":suite.strip(),"checks_quick_tier":results.strip()}, open(d+"/meta.json","w"), indent=1)
PY
