#!/usr/bin/env python3
"""Regenerates /verif/MANIFEST.json from the table below (claimed checks = modules present in props/)."""
import json, os, glob
HERE = os.path.dirname(os.path.dirname(os.path.abspath(__file__)))
DBE = "deviation-bounded exhaustive enumeration of generated inputs (all choice vectors with <= k non-default choices, complete enumeration of small shapes) executed on the implementation and compared with a Python reference model"
CHECKS = {
 "C01": dict(technique=DBE + "; complete products for block structure (<=4 blocks x 0..2 lines), label alphabet (73 chars x 3 positions + all punctuation pairs) and 108 numeric literal forms",
             text="Every generated .dec text inside the stated bounds is parsed by the real DecFileParser and every table field (mother order, line order, bf, daughters, PHOTOS, model, typed parameters) is compared with the AST it was rendered from; packed and unpacked; bounded exhaustive.",
             note="Bounds: block sequences up to length 3 (quick) / 4 (thorough), line content up to 2 / 3 deviations; labels starting with a digit are not used directly after a number.", ref="3/C01"),
 "C04": dict(technique="exhaustive enumeration of the installed name tables (all 806 EvtGen and 1014 PDG-style names, forwards/backwards and interleaved in both naming schemes because of the 64-entry cache), all multisets of <=3 names from a 12-name pool with multiplicities to 6, every EvtGen name doubled, decay modes x metadata kinds, and the CDecay table of the same decays; each chunk of calls runs as one history in a forked pristine process",
             text="Every name is conjugated by the real utility and compared with a reference built from the raw particle data files (negated ID / self-conjugate / wrapped unknown) and conjugated back; final states, decay modes (bf, metadata, original untouched) and parser-made CDecay tables must agree with the same reference. A failure that needs earlier calls is reported as a history.",
             note="Trusted base: the csv files shipped with particle 1.0.1; PDG-style names without an EvtGen counterpart have no known conjugate.", ref="3/C04"),
 "C05": dict(technique=DBE + " plus a metamorphic oracle (text vs. its AST-level expansion)",
             text="All files with <=k deviations from the default Define/ModelAlias scenario (placement, redefinition, 0..3 uses in 1..3 blocks, negated uses, alias parameter lists with Define'd names, copied and conjugated tables) are parsed and compared with the reference semantics, with the expanded text, and with dict_definitions/dict_model_aliases.",
             note="Bound 2 (quick) / 3 (thorough) deviations; +name, alias-of-alias and alias names equal to model names are outside the space.", ref="3/C05"),
 "C02": dict(technique="exhaustive enumeration of semantics-preserving rewrites: every single edit (13 kinds) at every physical line / token gap of every base input, every pair of edits at the same or adjacent lines of the generated files, every 2-way and 3-way file split; differential oracle = canonical snapshot of all public queries",
             text="Each base input (generated kitchen-sink files, every parseable fixture, the shipped master files) is rewritten by comments, blank lines, indentation, wider gaps, CRLF, wrapped / comma-separated parameter lists, repeated semicolons, final End, BOM, file splitting and string-vs-file construction at every position found by an independent line tokenizer; the snapshot of every query must equal that of the base.",
             note="Master files: each edit kind at all / even / odd positions at once (a differing composite is bisected); statements already spread over several physical lines get no wrapping edits.", ref="3/C02"),
 "C03": dict(technique=DBE + "; complete sweeps over all 684 paired EvtGen names as CDecay subject and over alias spellings (every initial letter, both ChargeConj orientations)",
             text="Every file with <=k deviations from the default CDecay scenario (naming, statement order (all 24), source via CopyDecay, Decay for X, missing source, self-conjugate subject, 1..4 CDecay statements, unrelated tables) is parsed with the switch on and off and the whole set of tables is compared with the reference conjugation built from the raw particle data files.",
             note="Bound 2 / 3 deviations; names that are the subject of two CDecay statements and non-involutive ChargeConj tables are outside the space.", ref="3/C03"),
 "C06": dict(technique="complete enumeration of the model-name table: 135 names x 5 contexts, all 30 prefix pairs in both orders, 1044 prefix registrations, user names with regex metacharacters, ~2000 near-miss unknown words (accept/reject oracle on the real parser); plus explicit-state BFS over histories of parser instances in one forked process (registration sets / ModelAlias definitions x model words); plus every sequence of <=3 (thorough 4) calls of load_additional_decay_models / grammar / grammar_info / parse on one parser before the final parse x 5 model words",
             text="All published names, all prefix-related pairs, every proper prefix of a published name registered as a user model, and near-miss unknown words are run through the real parser; accepted texts are compared field by field with the AST, unknown words must make parse() raise. All call sequences on one parser up to the bound: a name registered before a parse() must be accepted by it, whatever was called before.",
             note="Complete over the stated tables; user names ending in a non-word character are outside the space.", ref="3/C06"),
 "C07": dict(technique=DBE + "; complete enumeration of PHOTOS-flag sequences (<=4 flags x 3 positions each), label alphabet and numeric-form sweeps for every statement kind",
             text="Files with 0..3 statements of each of the 14 global statement kinds (colliding names, value forms, positions relative to Decay blocks, repeated lineshape settings, (a,b,a) and verbatim-repeat patterns) within the deviation bound are parsed and every global query is compared, typed, with the reference later-wins semantics; a BFS over histories of files parsed in one forked process (files re-using the same names with other meanings) checks that the answers for a file do not depend on what was parsed before.",
             note="Bound 2 / 3 deviations; default widths only for names with a known reference width.", ref="3/C07"),
 "C08": dict(technique="explicit-state BFS over histories of public queries on the real DecFileParser (every returned value destructively mutated, re-parse with either switch), each history in a forked pristine process, state hashing on the full query snapshot + hidden tree fingerprint; plus complete enumeration of CopyDecay scenarios against the reference semantics",
             text="All histories of length <=2 (3 on the smallest files in thorough) over ~40 query/mutation operations on generated files and fixtures are executed; after the last step every answer must equal that of a freshly parsed instance and no two decay tables may share a tree node, child list or token object. The CopyDecay clause is checked on the complete product of its scenario dimensions.",
             note="History length bound; six input files; the no-sharing invariant reads the private _parsed_decays list.", ref="3/C08"),
 "C09": dict(technique="complete enumeration of acyclic decay-table sets over an ordered universe (M>X>Y(>Z), <=3 daughters, 1..2 lines, absent/empty/filled sub-tables, spines to 8 lines / 7 daughters / depth 4) x every subset of the involved names as stable set; reference = recursive unfolding of the AST",
             text="For every enumerated table set and every stable set the chain built by the real parser (packed 50 scenarios per file and unpacked) is compared, typed, with the reference unfolding; particles without a table must raise DecayNotFound. Thorough adds every mother of both shipped master files whose unfolding stays below 20000 nodes.",
             note="Acyclic table sets only; sizes as stated.", ref="3/C09"),
 "C10": dict(technique="complete enumeration of decay-table sets (as C09, 0..4 lines per particle, >=3 decaying daughters, 6 alias variants) ; oracle = multiset of nested structures read back from the descriptors by an independent bracket-matching reader vs. the reference path enumeration, and the big-integer path count",
             text="expand_decay_modes of the real parser is compared with every choice function of the reference on every enumerated table set; multisets (not sets) of nested structures are compared so duplicates and omissions both show. Thorough adds all master-file mothers with <=50000 paths.",
             note="Acyclic table sets; labels that start with an opening bracket are outside the space.", ref="3/C10"),
 "C11": dict(technique="complete enumeration: all final states of <=4 names in every order and constructor form, 420 decay modes x metadata kinds, all 806 EvtGen PDG IDs, all 35420 single chains with <=4 decaying particles (every mapping order for <=3) over real and arbitrary names, all single-line parser chains; oracle = reference to_dict built position by position + round trips",
             text="Every enumerated object is built through the real classes; to_dict must equal the independently built dictionary (every occurrence of a decaying particle expanded), from_dict(to_dict) must reproduce mother, sub-decays, bf, daughter multisets and metadata, and parser chains must survive the class form up to daughter order.",
             note="Chains with unreachable sub-decays, model_params=None and metadata keys colliding with constructor parameters are outside the space.", ref="3/C11"),
 "C12": dict(technique="complete enumeration of single chains (<=4 decaying particles complete; <=6 with branching <=2 in thorough) x every stable subset x mapping orders, and call sequences on ONE chain object (every ordered pair of stable subsets, then visible_bf, then flatten()); exact arithmetic oracle (distinct prime reciprocals as Fractions, dyadic floats) so the exponent of each prime is the number of times a decay was counted",
             text="flatten() of the real DecayChain is compared with the reference leaf multiset and exact product for every chain, stable set and mapping order; metadata of the result, immutability of the original and visible_bf are checked as well.",
             note="Quick: all permutations of the mapping for <=3 decaying particles, identity/reverse/rotations for 4.", ref="3/C12"),
 "C13": dict(technique="complete enumeration of single chains (as C11) x 3 name sets (parentheses, primes, signs) x 6 bracketing patterns x all input orders; oracle = independent bracket-matching reader recovering the nested multiset",
             text="Every rendered descriptor is read back by a reader that does not share code with the library and must give exactly the tree the chain was built from, for the default and user patterns (top pattern at the top, sub pattern at every nested level), and one string for every input order.",
             note="Names with unbalanced brackets of the pattern in use are outside the space.", ref="3/C13"),
 "C15": dict(technique="complete enumeration of chain dictionaries (table-set shapes incl. 0..5 lines per particle, repeated decaying daughters, empty tables, zero-daughter lines, EvtGen-specific spellings; all single chains with <=3 decaying particles through the class form) read back through `dot -Tdot_json`; explicit-state exploration of all sessions of <=3 (4) viewers (default-named and named) in one forked process, every graph of a session checked in full, for the identifier clause",
             text="The DOT text of the real DecayChainViewer is parsed by Graphviz itself; the node/edge/port/label structure must be isomorphic to the reference graph (one node and one labelled edge per decay line, daughters in order), node names unique within a graph and decay-line node ids disjoint across the graphs of a session.",
             note="Trusted base: graphviz 2.43 as the reader of DOT; cell texts use particle's own LaTeX->HTML conversion.", ref="3/C15"),
 "C16": dict(technique="complete product: 8 branching-fraction patterns (ties, ties at the maximum, 1e-12..1, 7+ digits) x 6 table lengths x 3 line-content variants x 48 option combinations + 7 invalid ones; oracle with exact Fractions and a 7-significant-digit comparison",
             text="Every printed table of the real print_decay_modes is parsed row by row and compared with the reference rows (order by bf in the requested direction, file order among ties, one row per line, daughters/model/PHOTOS/parameters tokens, value within half a unit of the 7th digit of bf, bf/sum or bf*scale/max); invalid options must raise RuntimeError and stored values must be unchanged.",
             note="Tables without lines and zero branching fractions are outside the space.", ref="3/C16"),
 "C17": dict(technique=DBE + " over AmpGen option texts (3 event types, 1..4 complete and 0..6 partial lines, spin/lineshape tags, coupling forms, fix flags, parameter/constant lines, 6 layouts, the cartesian option 0/1/absent at 3 positions); each text is read in a forked pristine child",
             text="Every option text within the deviation bound is read by the real AmplitudeChain.read_ampgen; event type, parameter table, constants table and the list of amplitudes (tree, tags, coupling as mag*exp(i*phase) or re+i*im) must equal the reference cartesian expansion in file order.",
             note="Bound 2 / 3 deviations; vocabulary limited to a hand-written name->PDG-ID table; the harness memoises the pure name lookup (checked against unmemoised runs).", ref="3/C17"),
 "C18": dict(technique="complete enumeration: all 3962 (binary tree shape, leaf multiplicity pattern, event-type arrangement) cases plus 1227 chains over proper sub-multisets of the event type for the permutation set; all 29 supported spin structures/topologies (event types with 1, 2, 4, 6 and 24 permutations) x 4^k lineshape kinds x event-type orders x both output classes for the generated code, read back by independent front-ends",
             text="list_structure must return exactly the injective assignments; the code generated by both output classes must contain, per permutation, the expected spin factors (frozen copy of the table + form factor from the triangle rule), one lineshape per resonance of the declared kind and L with mass indices from the same permutation, and declare the number of permutations.",
             note="The spin-structure table is a frozen copy (its physics is not judged); mass symbols compared as written.", ref="3/C18"),
 "C19": dict(technique=DBE + " over four-body option files (26 spin structures, 6 lineshape tags per resonance, fixed/free couplings, spline / K-matrix / extra parameter families written in scrambled order) + the shipped model + the command-line entry point; both outputs read back into one structure, declared-before-use analysis, and execution of the Python output against a recording stand-in of goofit",
             text="For every file within the bound the C++ and Python outputs of the real converters must contain the same event type, constants, resonance variables, parameters, arrays and amplitudes (names, values, fixedness, spin factors, lineshapes and their arguments), every model symbol must be declared before use, the Python text must compile and run, and ret_output text must equal the printed text.",
             note="Known finding F9 (symbol sA_0 never declared for kMatrix lineshapes) is matched by signature and reported as KNOWN-FINDING; bound 2 / 3 deviations.", ref="3/C19"),
 "C20": dict(technique="explicit-state BFS over histories of read/convert calls (3 reader classes + 2 converters + 2 text-input readers x 4 option files, plus both converters in print mode on 2 files = 32 operations), every history in a forked pristine process, state = fingerprint of the class-level sets/switches/tables; oracle = the same last call alone in a genuinely fresh interpreter; coverage-driven enumeration of PYTHONHASHSEED values until every iteration order of the 3-element string sets has been observed",
             text="All histories of length <=2 plus all 756 of the form (a, b, a) (length <=3 in thorough) are executed on the real classes; amplitudes, tables and the canonicalised output text of the last call must equal those of the call alone in a fresh interpreter. Fresh interpreters with successive hash seeds must give canonically equal output (and identical text for equal seeds) until all 6 orders of the spin-configuration and spline-array sets have been seen.",
             note="Pool of four option files (partial lines defined differently in two of them, a cartesian twin with equal structure and other numbers, K-matrix, splines); hash-order effects are covered through the permutations they can produce, not all 2^32 seeds.", ref="3/C20"),
 "C14": dict(technique="explicit-state BFS over call histories of the real DescriptorFormat (state hashing on config + hidden per-object state) against a stack reference model; second driver through real with-blocks",
             text="Every history of create/enter/leave/leave-by-Exception/leave-by-BaseException/set/invalid-set operations up to the stated length (all histories up to the forced depth, state-hashed beyond) is executed on the real class and compared after every step with a stack model of the format in force; bounded exhaustive, no sampling.",
             note="Bounded by history length and at most 3 context objects; two valid and eight invalid pattern pairs.", ref="3/C14"),
}
def main():
    props = [json.loads(l) for l in open(os.path.join(HERE, "properties.jsonl"))]
    have = {os.path.basename(p)[:3].upper() for p in glob.glob(os.path.join(HERE, "props", "c*.py"))}
    checks, na = [], []
    for p in props:
        pid = p["id"]
        if pid in have and pid in CHECKS:
            c = CHECKS[pid]
            checks.append({
                "property_id": pid,
                "quick_cmd": f"./check {pid} --tier quick",
                "thorough_cmd": f"./check {pid} --tier thorough",
                "evidence_file": f"/verif/evidence/{pid}.json",
                "replay_cmd_template": f"./check {pid} --replay {{path}}",
                "engine": c.get("engine", "E2-dbe" if "E1" not in c["technique"] and "BFS" not in c["technique"] else "E1-bfs"),
                "level_claimed": {"category": "model_checking", "text": c["text"], "design_ref": "DESIGN.md section " + c["ref"]},
                "level_note": c["note"],
                "technique": c["technique"],
            })
        else:
            na.append({"property_id": pid, "reason": "check not built yet in this session (bounded exhaustive exploration applies; see DESIGN.md section 3)"})
    m = {
        "version": 1,
        "setup_cmd": "./setup.sh",
        "hooks": {
            "guard": "DECAYLANGUAGE_VERIF",
            "enable": "no source hooks are needed: checks import /repo/src (or $VERIF_REPO/src) directly and observe through the public API plus reads of private attributes from the harness; ./check sets DECAYLANGUAGE_VERIF=1 for completeness",
            "baseline_off_cmd": "cd /repo && /venv/bin/python -m pytest -ra -q -p no:cacheprovider --timeout=900 --continue-on-collection-errors",
            "source_commits": [],
            "add_only": True,
        },
        "engines": [
            {"name": "E1-bfs", "path": "/verif/mc/bfs.py", "serves_properties": ["C08", "C14", "C15", "C20"], "kind_free_text": "explicit-state breadth-first search over call histories executed on the real objects, state hashing on observable snapshot + hidden-state fingerprint"},
            {"name": "E2-dbe", "path": "/verif/mc/dbe.py", "serves_properties": [p["id"] for p in props if p["id"] not in ("C14",)], "kind_free_text": "deviation-bounded exhaustive scenario enumeration (iterative bounding of non-default choices; complete enumeration of shapes up to a size) executed on the implementation and compared with Python reference models"},
        ],
        "checks": checks,
        "not_applicable": na,
        "notes": "All checks: ./check <id> --tier quick|thorough; VERIF_SEED permutes name bindings/chunk order only; VERIF_REPO points a check at another tree (mutation driver). Findings and fix commits: KNOWN_FINDINGS.txt, DESIGN.md section 5.",
    }
    json.dump(m, open(os.path.join(HERE, "MANIFEST.json"), "w"), indent=1)
    print("claimed:", [c["property_id"] for c in checks])
if __name__ == "__main__":
    main()
