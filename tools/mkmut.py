#!/usr/bin/env python3
"""tools/mkmut.py <name> <relpath> <<< 'OLD\n=====\nNEW'  — writes mutants/<name>.diff as a diff of /repo HEAD with OLD replaced by NEW (exactly one occurrence)."""
import sys, subprocess, tempfile, os, shutil
name, rel = sys.argv[1], sys.argv[2]
blob = sys.stdin.read()
old, new = blob.split("\n=====\n")
new = new.rstrip("\n") + "\n" if old.endswith("\n") else new.rstrip("\n")
src = open(os.path.join("/repo", rel)).read()
assert src.count(old) == 1, f"{src.count(old)} occurrences"
d = tempfile.mkdtemp()
os.makedirs(os.path.join(d, "a", os.path.dirname(rel))); os.makedirs(os.path.join(d, "b", os.path.dirname(rel)))
open(os.path.join(d, "a", rel), "w").write(src); open(os.path.join(d, "b", rel), "w").write(src.replace(old, new))
p = subprocess.run(["diff", "-u", os.path.join("a", rel), os.path.join("b", rel)], cwd=d, capture_output=True, text=True)
out = os.path.join(os.path.dirname(os.path.dirname(os.path.abspath(__file__))), "mutants", name + ".diff")
open(out, "w").write(p.stdout)
shutil.rmtree(d); print("wrote", out)
