#!/bin/bash
# usage: tools/mutant.sh <patch.diff> <prop-id>[,<prop-id>...] [tier]   — runs checks against a scratch copy of /repo with the patch applied
# prints DETECTED/MISSED per property; the scratch copy is removed afterwards. Nothing in /repo is touched.
set -u
patch=$(readlink -f "$1"); props=$2; tier=${3:-quick}
d=$(mktemp -d /tmp/mut.XXXXXX)
mkdir -p $d/tests
cp -r /repo/src /repo/models $d/ && cp -r /repo/tests/data $d/tests/
( cd $d && git init -q . && git apply --whitespace=nowarn "$patch" ) || { echo "PATCH DOES NOT APPLY: $patch"; rm -rf $d; exit 3; }
rc=0
for p in ${props//,/ }; do
  out=$(cd /verif && VERIF_REPO=$d VERIF_EVIDENCE_DIR=$d/evidence VERIF_REPLAY_DIR=$d/replays ./check $p --tier $tier 2>&1)
  code=$?
  if [ $code -eq 1 ] && echo "$out" | grep -q '^VIOLATION'; then echo "DETECTED $p $(basename $patch): $(echo "$out" | grep -m1 -A1 '^VIOLATION' | tail -1 | cut -c1-160)";
  elif [ $code -eq 0 ]; then echo "MISSED   $p $(basename $patch)"; rc=1;
  else echo "ERROR($code) $p $(basename $patch)"; echo "$out" | tail -15; rc=2; fi
done
rm -rf $d
exit $rc
