#!/bin/bash
# runs every mutants/<cNN>_*.diff against its property (quick tier) and writes mutants/RESULTS.md
cd "$(dirname "$0")/.."
out=mutants/RESULTS.md
echo "# Detection of hand-written property-breaking patches (quick tier, $(date -u +%F))" > $out
echo >> $out; echo '| patch | property | result |' >> $out; echo '|---|---|---|' >> $out
for m in mutants/c[0-9]*.diff; do
  p=$(basename $m | cut -c1-3 | tr c C)
  r=$(timeout 1500 tools/mutant.sh $m $p 2>&1 | grep -E '^(DETECTED|MISSED|ERROR|PATCH)' | head -1)
  echo "| $(basename $m) | $p | ${r:-TIMEOUT} |" >> $out
  echo "$(basename $m): $r"
done
