#!/bin/bash
# tools/run_all.sh [tier] — runs every check serially, prints one line per check
tier=${1:-quick}
cd "$(dirname "$0")/.."
for i in $(seq -w 1 20); do
  s=$(date +%s); out=$(./check C$i --tier $tier 2>&1); rc=$?; e=$(date +%s)
  echo "C$i rc=$rc $((e-s))s $(echo "$out" | grep -c '^VIOLATION') violations $(echo "$out" | grep -c '^KNOWN-FINDING') known"
done
