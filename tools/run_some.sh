#!/bin/bash
# tools/run_some.sh <tier> <id>...  — like run_all.sh for the listed checks
tier=$1; shift
cd "$(dirname "$0")/.."
for c in "$@"; do
  s=$(date +%s); out=$(./check $c --tier $tier 2>&1); rc=$?; e=$(date +%s)
  echo "$c rc=$rc $((e-s))s $(echo "$out" | grep -c '^VIOLATION') violations $(echo "$out" | grep -c '^KNOWN-FINDING') known"
done
