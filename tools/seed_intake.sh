#!/bin/bash
# tools/seed_intake.sh <PROP> <A|B> [extra props to run]  — confirm a sub-agent's seeded change in its scratch worktree and file it under seeded/
set -u
prop=$1; x=$2; extra=${3:-}
wt=/tmp/wt_$prop; out=$wt/_out
cd /verif
[ -f $out/$x.patch ] || { echo "no $out/$x.patch"; exit 3; }
git -C $wt checkout -q -- src
run() { (cd $wt && PYTHONPATH=$wt/src timeout 600 /venv/bin/python _out/${x}_demo.py >/tmp/seed_demo_$prop.log 2>&1); echo $?; }
clean_rc=$(run)
git -C $wt apply --whitespace=nowarn $out/$x.patch || { echo "PATCH DOES NOT APPLY"; exit 3; }
mut_rc=$(run); demo_tail=$(tail -3 /tmp/seed_demo_$prop.log | tr '\n' ' ' | cut -c1-300)
suite=$(cd $wt && PYTHONPATH=$wt/src /venv/bin/python -m pytest -q -p no:cacheprovider --timeout=900 --deselect tests/dec/test_dec.py::test_particle_property_definitions --deselect tests/test_convert.py::test_full_convert 2>&1 | tail -1)
results=""
for p in $prop $extra; do
  o=$(VERIF_REPO=$wt VERIF_EVIDENCE_DIR=/tmp/seed_ev_$prop VERIF_REPLAY_DIR=/tmp/seed_rp_$prop timeout 1500 ./check $p --tier quick 2>&1); rc=$?
  sig=$(echo "$o" | grep -m1 -A1 '^VIOLATION' | tail -1 | sed 's/^ *//' | cut -c1-120)
  if [ $rc -eq 1 ]; then results="$results $p:DETECTED($sig)"; elif [ $rc -eq 0 ]; then results="$results $p:MISSED"; else results="$results $p:ERROR($rc)"; fi
done
git -C $wt checkout -q -- src; rm -rf /tmp/seed_ev_$prop /tmp/seed_rp_$prop
echo "$prop/$x: demo clean rc=$clean_rc, with change rc=$mut_rc; suite: $suite; checks:$results"
d=seeded/${prop}_${SEED_TAG:-}$x; mkdir -p $d
cp $out/$x.patch $d/patch.diff; cp $out/${x}_demo.py $d/demo.py; cp $out/${x}_notes.txt $d/notes.txt 2>/dev/null
python3 - "$prop" "$x" "$clean_rc" "$mut_rc" "$suite" "$results" "$demo_tail" <<'PY'
import json,sys,os
prop,x,c,m,suite,results,tail=sys.argv[1:8]
d=f"/verif/seeded/{prop}_"+os.environ.get("SEED_TAG","")+x
notes=open(d+"/notes.txt").read() if os.path.exists(d+"/notes.txt") else ""
json.dump({"property":prop,"origin":"independent sub-agent given only the property text and a scratch worktree",
 "needs_to_manifest":notes.strip(),
 "confirmed":{"demo_exit_unmodified":int(c),"demo_exit_with_change":int(m),"demo_output_with_change":tail,
   "suite_with_change":suite.strip(),"suite_command":"PYTHONPATH=<wt>/src /venv/bin/python -m pytest -q -p no:cacheprovider --timeout=900 --deselect <2 baseline always_fail tests>"},
 "checks_quick_tier":results.strip()}, open(d+"/meta.json","w"), indent=1)
PY
