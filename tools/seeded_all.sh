#!/bin/bash
# tools/seeded_all.sh [jobs]  — re-runs every seeded change (seeded/*/patch.diff) against the check(s) recorded as
# DETECTED in its meta.json (quick tier) and writes seeded/RESULTS.md. A change that is no longer reported is a regression.
cd "$(dirname "$0")/.."
jobs=${1:-6}
python3 - <<'PY' > /tmp/seeded_all.list
import glob, json, os, re
for d in sorted(glob.glob("/verif/seeded/*/meta.json")):
    m = json.load(open(d)); name = os.path.basename(os.path.dirname(d))
    checks = re.findall(r"(C\d\d):DETECTED", m["checks_quick_tier"])
    hist = m.get("history", "")
    # changes whose clause belongs to another property are recorded with the check that reports them
    for c in re.findall(r"reported by (C\d\d)", hist) + re.findall(r"(C\d\d) \(histories", hist):
        if c not in checks: checks.append(c)
    print(name, ",".join(dict.fromkeys(checks)) or m["property"])
PY
one() { name=$1; checks=$2
  git -C /repo apply --check --whitespace=nowarn /verif/seeded/$name/patch.diff 2>/dev/null || { echo "$name $checks SUPERSEDED:does-not-apply-on-the-repaired-tree(DETECTED-when-filed)"; return; }
  r=$(timeout 3000 tools/mutant.sh seeded/$name/patch.diff $checks 2>&1 | grep -E '^(DETECTED|MISSED|ERROR|PATCH)' | awk '{print $1":"$2}' | tr '\n' ' ')
  echo "$name $checks $r"; }
export -f one
xargs -P $jobs -L 1 bash -c 'one $0 $1' < /tmp/seeded_all.list | sort > /tmp/seeded_all.out
{ echo "# Re-run of every seeded change against the check(s) that report it (quick tier)"; echo; echo "| seed | checks | result |"; echo "|---|---|---|";
  awk '{n=$1; c=$2; $1="";$2=""; print "| " n " | " c " |" $0 " |"}' /tmp/seeded_all.out; } > seeded/RESULTS.md
echo "detected-by-some-check: $(grep -c DETECTED /tmp/seeded_all.out) of $(wc -l < /tmp/seeded_all.out); not reported at all: $(grep -vc DETECTED /tmp/seeded_all.out)"
grep -v DETECTED /tmp/seeded_all.out
