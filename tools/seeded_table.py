#!/usr/bin/env python3
"""Writes seeded/README.md from seeded/*/meta.json."""
import glob, json, os
HERE = os.path.dirname(os.path.dirname(os.path.abspath(__file__)))
rows = []
for d in sorted(glob.glob(os.path.join(HERE, "seeded", "*", "meta.json"))):
    m = json.load(open(d))
    name = os.path.basename(os.path.dirname(d))
    need = " ".join(m.get("needs_to_manifest", "").split())[:260]
    c = m["confirmed"]
    rows.append(f"| {name} | {m['property']} | {need} | demo {c['demo_exit_unmodified']}->{c['demo_exit_with_change']}; suite: {c['suite_with_change']} | {m['checks_quick_tier']} | {m.get('history', '')} |")
with open(os.path.join(HERE, "seeded", "README.md"), "w") as f:
    f.write("# Property-breaking changes from independent sub-agents\n\nEach sub-agent saw only the text of one property and its own scratch worktree of the repository (nothing from /verif).\n"
            "Every change below was re-confirmed here with tools/seed_intake.sh: the demonstration passes on the unmodified tree and fails with the change, the 282 baseline tests still pass, and the listed check was run against the changed tree (quick tier).\n\n"
            "| id | property | what it does / what it needs to manifest | confirmation | check result (quick tier) | history |\n|---|---|---|---|---|---|\n")
    f.write("\n".join(rows) + "\n")
print(len(rows), "rows")
