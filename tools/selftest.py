#!/venv/bin/python
"""Self-test of the reference models on known-good data (run by setup.sh): a wrong reference shows up here before
any check is trusted."""
import os
import sys
import warnings

HERE = os.path.dirname(os.path.dirname(os.path.abspath(__file__)))
sys.path.insert(0, os.path.join(os.environ.get("VERIF_REPO", "/repo"), "src"))
sys.path.insert(0, HERE)
warnings.simplefilter("ignore")

from ref import ampgen, chains, conj, decmodel, printing  # noqa: E402

ok = True


def expect(name, cond):
    global ok
    if not cond:
        ok = False
        print("SELFTEST FAILED:", name)


# conjugation reference on textbook cases
expect("cc K+", conj.base_cc("K+") == "K-")
expect("cc pi0", conj.base_cc("pi0") == "pi0")
expect("cc B0", conj.base_cc("B0") == "anti-B0" and conj.base_cc("anti-B0") == "B0")
expect("cc unknown", conj.base_cc("Foo") == "ChargeConj(Foo)")
expect("cc table both ways", conj.cc("MyS", {"MySbar": "MyS"}) == "MySbar" and conj.cc("MySbar", {"MySbar": "MyS"}) == "MyS")
expect("cc pdg", conj.base_cc_pdg("K(S)0") == "K(S)0" and conj.base_cc_pdg("B~0") == "B0")
kinds = [conj.kind(n) for n in conj.EVT_NAME2ID]
print("conj reference:", kinds.count("self"), "self-conjugate,", kinds.count("pair"), "paired,", kinds.count("unknown"), "without partner")
expect("involution on the whole table", all(conj.base_cc(conj.base_cc(n)) == n for n in conj.EVT_NAME2ID if conj.kind(n) != "unknown"))

# .dec semantics on the documented example (README of the repository)
ast = [["Define", "dm", "0.507e12"], ["Alias", "MyB0", "B0"], ["Alias", "MyAntiB0", "anti-B0"], ["ChargeConj", "MyB0", "MyAntiB0"],
       ["Decay", "MyB0", [["1.0", ["D*-", "pi+"], 1, "VSS_BMIX", ["dm", "-dm"]]]], ["CDecay", "MyAntiB0"],
       ["Decay", "MyB0", [["0.5", ["x"], 0, "PHSP", None]]]]
sem = decmodel.semantics(ast)
expect("first block wins", sem["tables"]["MyB0"] == [(1.0, ["D*-", "pi+"], True, "VSS_BMIX", [0.507e12, -0.507e12])])
expect("cdecay", sem["tables"]["MyAntiB0"] == [(1.0, ["D*+", "pi-"], True, "VSS_BMIX", [0.507e12, -0.507e12])])
expect("switch off", "MyAntiB0" not in decmodel.semantics(ast, include_cc=False)["tables"])
expect("render/number forms", all(decmodel.is_number(x) for x in ("1", "1.", ".5", "-0.8", "+3", "20.e12", "2E-4")) and not decmodel.is_number("dm"))

# descriptor reader on the documented strings
sx = chains.DescriptorSyntax("{mother} -> {daughters}", "({mother} -> {daughters})")
t = sx.read("D*+ -> (D0 -> (K_S0 -> pi+ pi-) (pi0 -> gamma gamma)) pi+")
expect("reader default", t == chains.nest("D*+", [chains.nest("D0", [chains.nest("K_S0", ["pi+", "pi-"]), chains.nest("pi0", ["gamma", "gamma"])]), "pi+"]))
sx2 = chains.DescriptorSyntax("{mother} => {daughters}", "{mother} (=> {daughters})")
expect("reader postfix", sx2.read("D*+ => D0 (=> K_S0 (=> pi+ pi-) pi0 (=> gamma gamma)) pi+") == t)
sx3 = chains.DescriptorSyntax("{mother} --> {daughters}", "[{mother} --> {daughters}]")
expect("reader brackets", sx3.read("D*+ --> [D0 --> [K_S0 --> pi+ pi-] [pi0 --> gamma gamma]] pi+") == t)
expect("reader names with parentheses", sx.read("B0 -> (K_1(1270)+ -> K+ (rho(770)0 -> pi+ pi-)) pi-")
       == chains.nest("B0", [chains.nest("K_1(1270)+", ["K+", chains.nest("rho(770)0", ["pi+", "pi-"])]), "pi-"]))

# path counting / flatten on the documented D*+ example
tables = {"D*+": [(0.677, ["D0", "pi+"], False, "VSS", []), (0.307, ["D+", "pi0"], False, "VSS", [])],
          "D0": [(1.0, ["K-", "pi+"], False, "PHSP", [])], "pi0": [(0.98, ["gamma", "gamma"], False, "PHSP", []), (0.01, ["e+", "e-", "gamma"], False, "PHSP", [])]}
expect("paths", chains.n_paths(tables, "D*+") == 3 and len(chains.paths(tables, "D*+")) == 3)
import collections  # noqa: E402
lv, cnt = chains.flatten("D0", {"D0": collections.Counter({"K_S0": 1, "pi0": 2}), "K_S0": collections.Counter({"pi+": 1, "pi-": 1}), "pi0": collections.Counter({"gamma": 2})})
expect("flatten", dict(lv) == {"pi+": 1, "pi-": 1, "gamma": 4} and cnt["pi0"] == 2)

# printing
expect("7 digits", printing.close_7_digits("0.7676797", 0.533 / 0.6943) and not printing.close_7_digits("0.7676", 0.533 / 0.6943))

# Bose permutations on the documented example: final_states=[a,b,c,c], [a,c,[c,b]] -> [(0,2,3,1),(0,3,2,1)]
expect("bose", sorted(ampgen.bose_permutations(["a", "c", "c", "b"], ["a", "b", "c", "c"])) == [(0, 2, 3, 1), (0, 3, 2, 1)])

# vocabulary table of the AmpGen reference against the library's own (fuzzy) name lookup
if "--skip-slow" not in sys.argv:
    from mc import isolate
    from decaylanguage.modeling import amplitudechain
    from particle import Particle

    isolate.warm(sorted(ampgen.PID))
    special = os.path.join(os.path.dirname(amplitudechain.__file__), "..", "data", "MintDalitzSpecialParticles.csv")
    Particle.load_table(special, append=True)
    for n, i in ampgen.PID.items():
        p = amplitudechain.particle_from_string_name(n)
        expect(f"PID[{n}]", int(p.pdgid) == i)
        spin_letter = {"Vector": "V", "Axial": "A", "Scalar": "S", "Tensor": "T", "PseudoScalar": "s", "PseudoTensor": "t"}.get(p.spin_type.name)
        expect(f"SPIN[{n}]", ampgen.SPIN[n] == (int(p.J), spin_letter))

print("selftest", "ok" if ok else "FAILED")
sys.exit(0 if ok else 1)
